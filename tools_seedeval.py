#!/usr/bin/env python3
"""Evaluate one seeded change against the checks WITHOUT touching /repo: the patch is applied to a scratch copy of /repo
(outside /repo and /verif, removed afterwards) and the checks run with PVX_REPO pointing at it (no evidence is written).

    python3 tools_seedeval.py <patch.diff> <demo.py> <C..> [<C..> ...] [--tier quick]
prints one JSON line: tests pass?, demo with/without, per property: exit code and violated labels."""
import json, os, re, shutil, subprocess, sys, tempfile

def sh(cmd, cwd=None, env=None, timeout=3600):
    p = subprocess.run(cmd, cwd=cwd, env=env, capture_output=True, text=True, timeout=timeout)
    return p.returncode, p.stdout + p.stderr

def main():
    args = [a for a in sys.argv[1:] if not a.startswith("--")]
    tier = "thorough" if "--thorough" in sys.argv else "quick"
    patch, demo, props = os.path.abspath(args[0]), os.path.abspath(args[1]), args[2:]
    tmp = tempfile.mkdtemp(prefix="seedeval-")
    out = {"patch": patch}
    try:
        rc, _ = sh(["git", "-C", "/repo", "worktree", "add", "--detach", tmp + "/wt", "-q"])
        wt = tmp + "/wt"
        env = dict(os.environ, PYTHONPATH=wt, PYTHONDONTWRITEBYTECODE="1")
        shutil.copy(demo, wt + "/_demo.py")      # run the demo from inside the scratch tree (sys.path[0] is the script's directory)
        demo = wt + "/_demo.py"
        out["demo_without"] = sh(["/venv/bin/python", demo], cwd=wt, env=env, timeout=600)[0]
        rc, o = sh(["git", "-C", wt, "apply", patch])
        out["applies"] = rc == 0
        if rc != 0:
            out["apply_error"] = o[-300:]
            print(json.dumps(out)); return
        rc, o = sh(["/venv/bin/python", "-m", "pytest", "-q", "-p", "no:cacheprovider", "-x"], cwd=wt, env=dict(os.environ, PYTHONDONTWRITEBYTECODE="1"), timeout=900)
        out["tests"] = (re.findall(r"(\d+ passed.*|\d+ failed.*)", o) or [o[-200:]])[-1]
        out["demo_with"] = sh(["/venv/bin/python", demo], cwd=wt, env=env, timeout=600)[0]
        for p in props:
            e = dict(os.environ, PVX_REPO=wt, PVX_NO_EVIDENCE="1")
            rc, o = sh(["python3-vt", "-m", "pvx.run", p, "--tier", tier], cwd=os.environ.get("PVX_VERIF", "/verif"), env=e, timeout=7200)
            labels = sorted(set(re.findall(r"^  label=(\S+)", o, re.M)))
            known = sorted(set(re.findall(r"^KNOWN-FINDING: property=\S+ (\S+)", o, re.M)))
            inc = len(re.findall(r"^INCONCLUSIVE", o, re.M))
            out[p] = {"exit": rc, "labels": labels, "known": known, "inconclusive": inc, "wall": (re.findall(r"wall_s=([\d.]+)", o) or ["?"])[-1]}
    finally:
        sh(["git", "-C", "/repo", "worktree", "remove", "--force", tmp + "/wt"])
        shutil.rmtree(tmp, ignore_errors=True)
    print(json.dumps(out))

if __name__ == "__main__":
    main()
