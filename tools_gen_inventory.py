#!/usr/bin/env python3
"""Regenerate DESIGN.md section 0.6 (as-built inventory) from the harness modules: the harnesses each check's quick job list
uses, its bounds texts and the labels that must be reached.   usage: python3-vt tools_gen_inventory.py"""
import importlib, os, re, sys
here = os.path.dirname(os.path.abspath(__file__))
sys.path.insert(0, here)
out = []
for i in range(1, 21):
    pid = f"C{i:02d}"
    m = importlib.import_module(f"pvx.harness.c{i:02d}")
    hs = sorted({j["h"] for t in ("quick", "thorough") for j in m.jobs(t)})
    b = m.BOUNDS
    out.append(f"**{pid}** - harnesses: " + ", ".join(f"`{h}`" for h in hs) + ".  \n"
               f"Quick bound: {b['quick']}.  \nThorough adds: {b['thorough']}.  \nOutside: {b['outside']}.  \n"
               "Labels that must be reached: " + ", ".join(m.EXPECT_LABELS.get("quick", [])) + ".\n")
p = os.path.join(here, "DESIGN.md")
s = open(p).read()
head = re.search(r"### 0\.6 [^\n]*\n\n", s)
tail = s.index("\n## 1. ")
s = s[:head.end()] + "\n".join(out) + s[tail:]
open(p, "w").write(s)
print("section 0.6 regenerated:", len(out), "entries")
