#!/usr/bin/env python3
"""Regenerates MANIFEST.json from the harness modules (python3-vt tools_gen_manifest.py)."""
import importlib, json, os, sys
sys.path.insert(0, os.path.dirname(os.path.abspath(__file__)))
PROPS = [f"C{i:02d}" for i in range(1, 21)]
NOT_APPLICABLE = {}
checks, na = [], []
for p in PROPS:
    try:
        m = importlib.import_module(f"pvx.harness.{p.lower()}")
    except ModuleNotFoundError:
        na.append({"property_id": p, "reason": NOT_APPLICABLE.get(p, "check not built yet in this revision (planned: see DESIGN.md section 7)")})
        continue
    b = getattr(m, "BOUNDS", {})
    checks.append({
        "property_id": p,
        "quick_cmd": f"python3-vt -m pvx.run {p} --tier quick",
        "thorough_cmd": f"python3-vt -m pvx.run {p} --tier thorough",
        "evidence_file": f"/verif/evidence/{p}.json",
        "replay_cmd_template": "python3-vt -m pvx.replay {path}",
        "engine": "pysym",
        "level_claimed": {"category": getattr(m, "LEVEL", "model_checking"),
                          "text": getattr(m, "LEVEL_TEXT", "Bounded symbolic model checking of the real Python code: every path of the harness is executed on z3 terms; each assertion is decided by z3 (unsat of the negation) for all values of the symbolic inputs within the stated configuration set. Bounds: " + b.get("quick", "") + " | thorough: " + b.get("thorough", "") + " | outside: " + b.get("outside", "")),
                          "design_ref": f"DESIGN.md section 7 ({p})"},
        "level_note": getattr(m, "LEVEL_NOTE", "Trusted: z3, the pysym engine (/verif/pvx/engine.py), the container stubs listed in the evidence (validated by replaying solver models of proved paths on the real classes). Assumptions: " + "; ".join(getattr(m, "ASSUMPTIONS", []))),
        "technique": getattr(m, "TECHNIQUE", "symbolic execution of the real functions over z3 terms (SMT, bounded); counterexamples replayed concretely"),
    })
man = {
    "version": 1,
    "setup_cmd": "python3-vt -m pvx.selfcheck",
    "hooks": {"guard": "PYPROBABLES_VERIF", "enable": "no source hooks: containers and OS services are replaced from the harness by assigning module globals of the imported /repo modules", "baseline_off_cmd": "cd /repo && /venv/bin/python -m pytest -q -p no:cacheprovider", "source_commits": [], "add_only": True},
    "engines": [{"name": "pysym", "path": "/verif/pvx", "serves_properties": [c["property_id"] for c in checks],
                 "kind_free_text": "dynamic symbolic executor (operator-overloading proxies over z3 5.1.0, eager forking, re-execution DFS, 16-process job pool) running the real /repo code"}],
    "checks": checks,
    "notes": "exit 0 = all assertions unsat-proved within bounds; exit 1 = replayed counterexample (VIOLATION line); exit 2 = inconclusive (never a pass). Known findings: /verif/known_findings.json.",
    "not_applicable": na,
}
json.dump(man, open(os.path.join(os.path.dirname(os.path.abspath(__file__)), "MANIFEST.json"), "w"), indent=1)
print("checks", len(checks), "not_applicable", len(na))
