#!/usr/bin/env python3
"""Run ONE harness job and print its summary (development aid).  usage: PYTHONPATH=/verif [PVX_REPO=<scratch tree>] python3-vt tools_onejob.py pvx.harness.c01 c01.step '{"est":2,"fpr":0.3}' ['<opts json>']"""
import sys, json
from pvx import run
mod, h = sys.argv[1], sys.argv[2]; cfg = json.loads(sys.argv[3]); opts = json.loads(sys.argv[4]) if len(sys.argv) > 4 else {}
s = run.run_job((mod, {"h": h, "cfg": cfg, "opts": opts}, 0))
for k in ("paths","completed","queries","unsat","sat","unknown_q","solver_s","wall_s","proved","violated","unknown","unsupported","budget","timeouts","crash"):
    if k in s: print(k, ':', str(s[k])[:600])
print('violations', [ (v.get('label'), str(v)[:300]) for v in s.get('violations', [])][:3])
print('witnesses', str(s.get('witnesses'))[:300])
