#!/usr/bin/env python3
"""Store evaluated seeded changes under /verif/seeded/<id>/ (patch.diff, demo.py, meta.json).
usage: tools_seedstore.py <round> <seed root dir> <after.jsonl> [<before.jsonl>]"""
import json, os, shutil, sys
rnd, root, after = sys.argv[1], sys.argv[2], sys.argv[3]
before = {}
if len(sys.argv) > 4 and os.path.exists(sys.argv[4]):
    for l in open(sys.argv[4]):
        if l.startswith("{"):
            d = json.loads(l); before[d["patch"]] = d
for l in open(after):
    if not l.startswith("{"):
        continue
    d = json.loads(l)
    prop, n = d["patch"].split("/")[-2], d["patch"].split("/")[-1][4]
    if not d.get("applies") or "312 passed" not in (d.get("tests") or "") or d.get("demo_with") != 1 or d.get("demo_without") != 0:
        print("not kept (conditions not confirmed):", d["patch"], d.get("tests"), d.get("demo_without"), d.get("demo_with")); continue
    sid = f"{prop}-r{rnd}-{n}"
    dst = os.path.join(os.path.dirname(os.path.abspath(__file__)), "seeded", sid)
    os.makedirs(dst, exist_ok=True)
    shutil.copy(d["patch"], dst + "/patch.diff")
    shutil.copy(os.path.join(os.path.dirname(d["patch"]), f"demo{n}.py"), dst + "/demo.py")
    desc = open(d["patch"].replace(".diff", ".txt")).read() if os.path.exists(d["patch"].replace(".diff", ".txt")) else ""
    res = {k: v for k, v in d.items() if k.startswith("C") and isinstance(v, dict)}
    b = before.get(d["patch"], {})
    bres = {k: v for k, v in b.items() if k.startswith("C") and isinstance(v, dict)}
    meta = {"id": sid, "breaks_property": prop, "round": int(rnd), "author": "independent sub-agent (saw only the property text and a scratch worktree)",
            "needs_to_manifest": desc.strip(),
            "confirmed": {"applies_to": "/repo HEAD at seeding time", "existing_tests_with_change": d["tests"], "demo_exit_without_change": d["demo_without"],
                          "demo_exit_with_change": d["demo_with"],
                          "how": "tools_seedeval.py: scratch `git worktree` of /repo (removed afterwards), `git apply patch.diff`, /venv/bin/python -m pytest, demo run from inside the scratch tree"},
            "checks_run": {p: {"cmd": f"PVX_REPO=<scratch> python3-vt -m pvx.run {p} --tier quick", "exit": v["exit"], "violated_labels": v["labels"],
                               "inconclusive_messages": v["inconclusive"], "wall_s": v["wall"]} for p, v in res.items()},
            "detected_by": sorted(p for p, v in res.items() if v["exit"] == 1)}
    if bres:
        meta["checks_before_strengthening"] = {p: {"verif_commit": os.environ.get("BEFORE_COMMIT", "624cc41"), "exit": v["exit"], "violated_labels": v["labels"]} for p, v in bres.items()}
    json.dump(meta, open(dst + "/meta.json", "w"), indent=1)
    print(sid, "detected_by", meta["detected_by"], "before:", {p: v["exit"] for p, v in bres.items()})
