#!/usr/bin/env python3
"""Re-run, for every stored seeded change, the checks recorded as catching it (meta.json 'detected_by'; the targeted check
if none) against the CURRENT checks, and record the outcome in meta.json under 'recheck'.

    python3 tools_seedrecheck.py [<id-substring> ...]      (scratch worktrees of /repo, removed afterwards; /repo untouched)"""
import glob, json, os, subprocess, sys

HERE = os.path.dirname(os.path.abspath(__file__))


def main():
    subs = sys.argv[1:]
    commit = subprocess.run(["git", "-C", HERE, "rev-parse", "--short", "HEAD"], capture_output=True, text=True).stdout.strip()
    repo = subprocess.run(["git", "-C", "/repo", "rev-parse", "--short", "HEAD"], capture_output=True, text=True).stdout.strip()
    bad = 0
    for d in sorted(glob.glob(os.path.join(HERE, "seeded", "*"))):
        sid = os.path.basename(d)
        if subs and not any(s in sid for s in subs):
            continue
        meta = json.load(open(d + "/meta.json"))
        props = meta.get("detected_by") or [meta["breaks_property"]]
        p = subprocess.run([sys.executable, os.path.join(HERE, "tools_seedeval.py"), d + "/patch.diff", d + "/demo.py"] + props,
                           capture_output=True, text=True, cwd=HERE)
        line = [l for l in p.stdout.splitlines() if l.startswith("{")]
        if not line:
            print(sid, "EVAL FAILED", p.stderr[-300:], flush=True)
            bad += 1
            continue
        r = json.loads(line[-1])
        res = {k: v for k, v in r.items() if k.startswith("C") and isinstance(v, dict)}
        caught = sorted(k for k, v in res.items() if v["exit"] == 1)
        meta["recheck"] = {"verif_commit": commit, "repo_commit": repo, "applies": r.get("applies"), "tests": r.get("tests"),
                           "demo_exit_with_change": r.get("demo_with"), "demo_exit_without_change": r.get("demo_without"),
                           "checks": {k: {"exit": v["exit"], "violated_labels": v["labels"], "wall_s": v["wall"]} for k, v in res.items()},
                           "caught_by": caught}
        json.dump(meta, open(d + "/meta.json", "w"), indent=1)
        ok = bool(caught) or not meta.get("detected_by")
        bad += 0 if ok else 1
        print(sid, "applies" if r.get("applies") else "DOES NOT APPLY", "caught_by", caught, "" if ok else "  <-- REGRESSION", flush=True)
    return 1 if bad else 0


if __name__ == "__main__":
    sys.exit(main())
