"""Harness-facing helpers that work in both modes.  No solver import at module level: in concrete mode nothing of
z3 is loaded, so replays also run under /venv/bin/python."""
import io
import os
import sys

REPO = os.environ.get("PVX_REPO", "/repo")
sys.dont_write_bytecode = True
if REPO not in sys.path:
    sys.path.insert(0, REPO)

# module short name -> (import path, module globals to shadow, {class name: [struct attribute names]})
MODULES = {
    "bloom": ("probables.blooms.bloom",
              ["array", "bytes", "bytearray", "int", "bin", "hexlify", "unhexlify", "str", "BytesIO", "is_hex_string"],
              {"BloomFilter": ["_FOOTER_STRUCT", "_FOOTER_STRUCT_BE", "_IMPT_STRUCT"],
               "BloomFilterOnDisk": ["_EXPECTED_ELM_STRUCT", "_UPDATE_OFFSET"]}),
    "countingbloom": ("probables.blooms.countingbloom", ["array", "bytes", "is_hex_string"], {"CountingBloomFilter": ["_IMPT_STRUCT"]}),
    "expanding": ("probables.blooms.expandingbloom", ["array", "bytes", "int", "BytesIO"],
                  {"ExpandingBloomFilter": ["_ExpandingBloomFilter__FOOTER_STRUCT", "_ExpandingBloomFilter__S_INT64_STRUCT"]}),
    "cms": ("probables.countminsketch.countminsketch", ["array", "bytes", "BytesIO"],
            {"CountMinSketch": ["_CountMinSketch__FOOTER_STRUCT", "_CountMinSketch__BASIC_BIN_STRUCT"]}),
    "cuckoo": ("probables.cuckoo.cuckoo", ["array", "bytes", "BytesIO", "random"],
               {"CuckooFilter": ["_CUCKOO_FOOTER_STRUCT"]}),
    "countingcuckoo": ("probables.cuckoo.countingcuckoo", ["array", "bytes", "random"],
                       {"CountingCuckooFilter": ["_CountingCuckooFilter__COUNTING_CUCKOO_FOOTER_STRUCT",
                                                 "_CountingCuckooFilter__BIN_STRUCT"]}),
    "qf": ("probables.quotientfilter.quotientfilter", ["array"], {}),
    "utilities": ("probables.utilities", ["array"], {}),
}


def mod(name):
    import importlib
    return importlib.import_module(MODULES[name][0])


def setup(ctx, *names):
    """install the container models for the named library modules (symbolic mode only)"""
    import importlib
    rnd = None
    for name in names:
        path, globs, structs = MODULES[name]
        m = importlib.import_module(path)
        if not ctx.sym:
            if "random" in globs:
                rnd = rnd or ScriptedRandom(ctx)
                ctx.patch(m, "random", rnd)
            continue
        from . import shims
        table = {"array": shims.SymArray, "bytes": shims.BytesShim, "bytearray": shims.BytearrayShim,
                 "int": shims.IntShim, "bin": shims.bin_shim, "hexlify": shims.hexlify_shim,
                 "unhexlify": shims.unhexlify_shim, "str": shims.StrShim, "BytesIO": shims.SymFile}
        for g in globs:
            if g == "random":
                rnd = rnd or shims.SymRandom(ctx)
                ctx.patch(m, "random", rnd)
            elif g == "is_hex_string":
                ctx.patch(m, g, shims.is_hex_string_shim(getattr(m, g)))
            else:
                ctx.patch(m, g, table[g])
        for cname, attrs in structs.items():
            cls = getattr(m, cname)
            for a in attrs:
                real = getattr(cls, a)
                if not isinstance(real, shims.SymStruct):
                    ctx.patch(cls, a, shims.SymStruct(real.format))


class ScriptedRandom:
    """concrete mode: random.choice / randint answer with the values of the replay file (stated in the replay output)"""

    def __init__(self, ctx):
        self.ctx, self.n = ctx, 0

    def choice(self, seq):
        self.n += 1
        return seq[self.ctx.int(f"rnd{self.n}:choice", 0, len(seq) - 1) % len(seq)]

    def randint(self, a, b):
        self.n += 1
        return min(max(self.ctx.int(f"rnd{self.n}:randint", a, b), a), b)


# ---------------------------------------------------------------------------- small mode-agnostic helpers
def new_file(ctx):
    if ctx.sym:
        from . import shims
        return shims.SymFile()
    return io.BytesIO()


def byte_vals(blob):
    """list of byte values of an exported blob (ints or proxies)"""
    if hasattr(blob, "byte_list"):
        return blob.byte_list()
    return list(bytes(blob))


def make_blob(ctx, vals):
    """bytes object made of the given byte values"""
    if ctx.sym:
        from . import shims
        return shims.SymBytes([(v, 1, False) for v in vals])
    return bytes(vals)


def cells(arr):
    return list(arr.cells) if hasattr(arr, "cells") else list(arr)


def hex_payload(ctx, h):
    """byte values carried by a hex string"""
    if hasattr(h, "payload"):
        return h.payload.byte_list()
    return list(bytes.fromhex(h))


def export_bytes(ctx, obj):
    f = new_file(ctx)
    obj.export(f)
    return f.getvalue()


def mod_hashes():
    import importlib
    return importlib.import_module("probables.hashes")


def blob_eq(ctx, a, b):
    """a == b for two exported blobs.  Symbolic blobs with the same cell structure are compared cell by cell (comparing
    the bytes of a symbolic 32/64-bit cell would put div/mod terms into the query for no gain)."""
    if hasattr(a, "chunks") and hasattr(b, "chunks"):
        if len(a) != len(b):
            return False
        if [(n, be) for _, n, be in a.chunks] == [(n, be) for _, n, be in b.chunks]:
            return ctx.and_([ctx.eq(x[0], y[0]) for x, y in zip(a.chunks, b.chunks)])
        return ctx.and_([ctx.eq(x, y) for x, y in zip(a.byte_list(), b.byte_list())])
    return bytes(a) == bytes(b)


# ---------------------------------------------------------------------------- file system facade
FS_NAMES = {
    "bloom": ["open", "resolve_path", "is_valid_file", "copyfile", "MMap", "mmap", "Path"],
    "countingbloom": ["resolve_path", "is_valid_file"],
    "expanding": ["open", "resolve_path", "is_valid_file", "MMap", "mmap"],
    "cms": ["open", "resolve_path", "is_valid_file", "MMap", "mmap"],
    "cuckoo": ["open", "resolve_path", "is_valid_file", "MMap", "mmap"],
    "countingcuckoo": ["open", "resolve_path", "MMap", "mmap"],
}


class FS:
    """symbolic mode: the VFS model installed into the named library modules; concrete mode: real files in a temp dir
    (directory ids become sub-directories, chdir is a real os.chdir)"""

    def __init__(self, ctx, mods, cwd=0):
        self.ctx = ctx
        if ctx.sym:
            from . import vfs
            self.v = vfs.VFS(ctx, cwd)
            for m in mods:
                self.v.install(ctx, mod(m), FS_NAMES[m])
        else:
            import tempfile
            self.root = tempfile.mkdtemp(prefix="pvx-replay-")
            self.old = os.getcwd()
            self.chdir(cwd)
            ctx.on_exit(self.cleanup)

    def _dir(self, d):
        p = os.path.join(self.root, f"d{int(d)}")
        os.makedirs(p, exist_ok=True)
        return p

    def path(self, d, name):
        if self.ctx.sym:
            from . import vfs
            return vfs.VPath(d, name)
        return os.path.join(self._dir(d), name)

    def chdir(self, d):
        if self.ctx.sym:
            self.v.cwd = d
        else:
            os.chdir(self._dir(d))

    def read(self, d, name):
        if self.ctx.sym:
            f = self.v.lookup(self.path(d, name))
            return None if f is None else f.content()
        p = self.path(d, name)
        return open(p, "rb").read() if os.path.exists(p) else None

    def write(self, d, name, blob):
        if self.ctx.sym:
            h = self.v.open(self.path(d, name), "wb")
            h.write(blob)
            h.close()
        else:
            with open(self.path(d, name), "wb") as f:
                f.write(bytes(blob))

    def poke(self, d, name, offset, blob):
        """overwrite bytes of an existing file at offset (state injection for harness pre-states)"""
        if self.ctx.sym:
            f = self.v.lookup(self.path(d, name))
            from .shims import as_symbytes
            f._apply(f.chunks, offset, [list(c) for c in as_symbytes(blob).chunks])
        else:
            with open(self.path(d, name), "r+b") as fh:
                fh.seek(offset)
                fh.write(bytes(blob))

    def cleanup(self):
        import shutil
        try:
            os.chdir(self.old)
        finally:
            shutil.rmtree(self.root, ignore_errors=True)


# ---------------------------------------------------------------------------- effect recording for crash-point replays
class EffectLog:
    """Uniform view of the effects an operation had on one file, for the symbolic-crash-index harness (C11).

    symbolic mode: a window of the VFS effect log.  concrete mode: the real library runs on a real file through a recording
    mmap subclass and a recording file proxy; the snapshot for crash index c is the base content with the first c recorded
    effects applied in order (the process-kill model the VFS states)."""

    def __init__(self, fs, d, name):
        self.fs, self.d, self.name = fs, d, name
        self.ctx = fs.ctx
        if self.ctx.sym:
            self.vf = fs.v.lookup(fs.path(d, name))
        else:
            self.rec = fs.recorder

    def mark(self):
        """start of the operation under test: remember the content and forget earlier effects"""
        if self.ctx.sym:
            self.base = [list(c) for c in self.vf.chunks]
            self.base_seq = self.fs.v.seq
        else:
            self.rec.sync()
            self.base = bytearray(self.fs.read(self.d, self.name))
            self.rec.effects.clear()

    def count(self):
        if self.ctx.sym:
            return self.fs.v.seq - self.base_seq
        self.rec.sync()
        return len(self.rec.effects)

    def snapshot(self, crash):
        """file content if the process is killed after `crash` effects of the operation (0 = none, count() = all)"""
        if self.ctx.sym:
            return self.vf.snapshot(self.base, self.base_seq, self.base_seq + crash)
        buf = bytearray(self.base)
        for pos, data in self.rec.effects[: int(crash)]:
            if pos + len(data) > len(buf):
                buf.extend(b"\0" * (pos + len(data) - len(buf)))
            buf[pos:pos + len(data)] = data
        return bytes(buf)


class Recorder:
    """concrete mode: stands in for `mmap` and `open` inside probables.blooms.bloom and logs every store / flushed write"""

    def __init__(self):
        self.effects = []
        self.files = []

    def sync(self):
        for f in self.files:
            f._drain()

    def mmap_cls(self):
        import mmap as _mmap
        rec = self

        class _Meta(type):
            def __instancecheck__(cls, x):          # the library also asks isinstance(x, mmap) for plain maps
                return isinstance(x, _mmap.mmap)

        class RecMap(_mmap.mmap, metaclass=_Meta):
            def __setitem__(self, i, v):
                rec.sync()
                if isinstance(i, slice):
                    rec.effects.append((i.start or 0, bytes(v)))
                else:
                    rec.effects.append((i if i >= 0 else len(self) + i, bytes([v])))
                super().__setitem__(i, v)
        return RecMap

    def open_fn(self):
        import builtins
        rec = self

        class RecFile:
            def __init__(self, f):
                self.f, self.pending = f, []
                rec.files.append(self)

            def _drain(self):
                if self.pending:
                    rec.effects.extend(self.pending)
                    self.pending = []

            def write(self, b):
                self.pending.append((self.f.tell(), bytes(b)))
                return self.f.write(b)

            def seek(self, *a):
                self._drain()
                return self.f.seek(*a)

            def flush(self):
                self._drain()
                return self.f.flush()

            def close(self):
                self._drain()
                return self.f.close()

            def __getattr__(self, n):
                return getattr(self.f, n)

            def __enter__(self):
                return self

            def __exit__(self, *a):
                self.close()

        def opener(path, mode="r", *a, **k):
            f = builtins.open(path, mode, *a, **k)
            return RecFile(f) if "+" in mode else f
        return opener


def record_effects(ctx, fs):
    """concrete mode only: install the recorder into probables.blooms.bloom"""
    if not ctx.sym:
        fs.recorder = Recorder()
        bm = mod("bloom")
        ctx.patch(bm, "mmap", fs.recorder.mmap_cls())
        ctx.patch(bm, "open", fs.recorder.open_fn())


def u64_blob(ctx, v):
    if ctx.sym:
        from .shims import SymBytes
        return SymBytes([(v, 8, False)])
    import struct
    return struct.pack("<Q", v)


def opaque_stats(ctx):
    """symbolic mode: let estimate_elements / current_false_positive_rate / __str__ run on opaque floats (values not modelled)"""
    if ctx.sym:
        from . import shims
        for name in ("bloom", "countingbloom"):
            m = mod(name)
            ctx.patch(m, "float", shims.FloatShim)
            if hasattr(m, "math"):
                ctx.patch(m, "math", shims.MathStub())
        ctx.patch(mod("bloom"), "int", shims.IntShimOpaque)


def pack_le(ctx, fields):
    """blob from (value, size_in_bytes) fields, little-endian two's complement - the documented C layout, written independently
    of the library's struct calls"""
    if ctx.sym:
        from .shims import SymBytes
        chunks = []
        for v, n in fields:
            if not isinstance(v, int) and getattr(v, "lo", 0) is not None and (v.lo is None or v.lo < 0):
                v = v % (1 << (8 * n))
            elif isinstance(v, int) and v < 0:
                v += 1 << (8 * n)
            chunks.append((v, n, False))
        return SymBytes(chunks)
    out = b""
    for v, n in fields:
        out += (int(v) % (1 << (8 * n))).to_bytes(n, "little")
    return out


def f32_fields(x):
    """the 4 bytes of a concrete float as IEEE binary32, little-endian"""
    import struct
    return [(b, 1) for b in struct.pack("<f", x)]


def u_cells(ctx, blob, size, count, offset=0, signed=False):
    """decode `count` little-endian cells of `size` bytes starting at byte offset - the reference reader's view of a file"""
    if hasattr(blob, "cells"):
        return blob[offset:offset + size * count].cells(size, signed=signed)
    raw = bytes(blob)
    return [int.from_bytes(raw[offset + i * size: offset + (i + 1) * size], "little", signed=signed) for i in range(count)]
