"""pysym: a dynamic symbolic executor for the real pyprobables code.

The real functions of /repo/probables are *called* with proxy values (SInt) that overload
Python's operators and build z3 terms.  Comparisons fork eagerly (they return real bools);
the harness is re-executed once per feasible path (DFS over decision prefixes).

This module imports z3 and is used only in symbolic mode; `pvx.concrete` offers the same
facade over plain Python values for replay on the real, unshimmed classes.
"""
import itertools
import numbers
import os as _os
import sys
import time

import z3

CUR = None  # the engine of the path being executed (one per process)
_UNIQ = itertools.count()


class PathEnd(BaseException):
    """Path abandoned (infeasible assumption / nothing left to check)."""


class Unsupported(BaseException):
    """The engine cannot model an operation: the path is inconclusive, never a pass."""


class Budget(BaseException):
    """Decision budget of a path exhausted (inconclusive / candidate non-termination)."""


# ---------------------------------------------------------------------------- terms
def T(x):
    """z3 Int term of an int-like value"""
    if isinstance(x, SInt):
        return x.t
    if isinstance(x, (bool, int)):
        return z3.IntVal(int(x))
    raise TypeError(f"unsupported operand {type(x)}")


def B(x):
    """z3 Bool term of a bool-like value"""
    if isinstance(x, bool):
        return z3.BoolVal(x)
    if z3.is_bool(x):
        return x
    raise TypeError(f"not a boolean term: {type(x)}")


def _iv(x):
    if isinstance(x, SInt):
        return x.lo, x.hi
    x = int(x)
    return x, x


def _mk(t, lo=None, hi=None):
    t = z3.simplify(t)
    if z3.is_int_value(t):
        return t.as_long()
    if lo is not None and lo == hi:
        return lo
    return SInt(t, lo, hi)


def _add_iv(a, b):
    return (None if a[0] is None or b[0] is None else a[0] + b[0],
            None if a[1] is None or b[1] is None else a[1] + b[1])


def _bits_sum(bits):
    return z3.Sum([z3.If(b, 1 << i, 0) for i, b in enumerate(bits)]) if bits else z3.IntVal(0)


class SInt:
    """Symbolic Python int: an Int term, or a little-endian list of Bool terms, or both."""
    __slots__ = ("_t", "bits", "lo", "hi", "inv_of")

    def __init__(self, t=None, lo=None, hi=None, bits=None):
        self._t, self.bits, self.lo, self.hi, self.inv_of = t, bits, lo, hi, None

    @property
    def t(self):
        if self._t is None:
            self._t = _bits_sum(self.bits)
        return self._t

    # ---- arithmetic
    def __add__(s, o):
        if not isinstance(o, (int, SInt)):
            return NotImplemented
        return _mk(s.t + T(o), *_add_iv(_iv(s), _iv(o)))
    __radd__ = __add__

    def __sub__(s, o):
        if not isinstance(o, (int, SInt)):
            return NotImplemented
        ol, oh = _iv(o)
        return _mk(s.t - T(o), *_add_iv(_iv(s), (None if oh is None else -oh, None if ol is None else -ol)))

    def __rsub__(s, o):
        if not isinstance(o, (int, SInt)):
            return NotImplemented
        return _mk(T(o) - s.t, *_add_iv(_iv(o), (None if s.hi is None else -s.hi, None if s.lo is None else -s.lo)))

    def __neg__(s):
        return _mk(-s.t, None if s.hi is None else -s.hi, None if s.lo is None else -s.lo)

    def __pos__(s):
        return s

    def __mul__(s, o):
        if not isinstance(o, (int, SInt)):
            return NotImplemented
        lo = hi = None
        a, b = _iv(s), _iv(o)
        if None not in a and None not in b:
            c = [a[0] * b[0], a[0] * b[1], a[1] * b[0], a[1] * b[1]]
            lo, hi = min(c), max(c)
        return _mk(s.t * T(o), lo, hi)
    __rmul__ = __mul__

    @staticmethod
    def _pos(o):
        if isinstance(o, SInt):
            if not (o.lo is not None and o.lo > 0):
                if not CUR.branch(o.t > 0):
                    if CUR.branch(o.t == 0):
                        raise ZeroDivisionError("integer division or modulo by zero")
                    raise Unsupported("negative symbolic divisor")
        elif o <= 0:
            if o == 0:
                raise ZeroDivisionError("integer division or modulo by zero")
            raise Unsupported("negative divisor")

    def __floordiv__(s, o):
        if not isinstance(o, (int, SInt)):
            return NotImplemented
        s._pos(o)
        if isinstance(o, int) and o & (o - 1) == 0 and s.bits is not None:
            sh = o.bit_length() - 1
            return _from_bits(s.bits[sh:])
        lo = hi = None
        if isinstance(o, int) and s.lo is not None and s.hi is not None:
            lo, hi = s.lo // o, s.hi // o
        return _mk(s.t / T(o), lo, hi)

    def __mod__(s, o):
        if not isinstance(o, (int, SInt)):
            return NotImplemented
        s._pos(o)
        if isinstance(o, int) and o & (o - 1) == 0 and s.bits is not None:
            return _from_bits(s.bits[:o.bit_length() - 1])
        hi = (o - 1) if isinstance(o, int) else (None if o.hi is None else o.hi - 1)
        if isinstance(o, int) and s.lo is not None and s.hi is not None and s.lo // o == s.hi // o:
            return s - (s.lo // o) * o          # the whole interval lies in one period: no mod term needed
        return _mk(s.t % T(o), 0, hi)

    def __rmod__(s, o):
        s._pos(s)
        return _mk(T(o) % s.t, 0, None if s.hi is None else s.hi - 1)

    def __rfloordiv__(s, o):
        s._pos(s)
        return _mk(T(o) / s.t)

    def __truediv__(s, o):
        if isinstance(o, (int, SInt)):
            return SRatio(s, o)       # exact rational; the harness inspects numerator and denominator
        raise Unsupported("true division of a symbolic int by a float")

    def __rtruediv__(s, o):
        if isinstance(o, int):
            return SRatio(o, s)
        raise Unsupported("true division of a float by a symbolic int")

    def __pow__(s, o):
        if isinstance(o, int) and 0 <= o <= 4:
            r = 1
            for _ in range(o):
                r = r * s
            return r
        raise Unsupported("symbolic power")

    def __rpow__(s, o):
        if isinstance(o, int) and o == 2:
            return 1 << s
        raise Unsupported("symbolic exponent")

    def __abs__(s):
        return ite(s.t >= 0, s, -s)

    # ---- shifts
    def __lshift__(s, o):
        if isinstance(o, int):
            return s * (1 << o)
        return _shift(s, o, True)

    def __rlshift__(s, o):
        return _shift(o, s, True)

    def __rshift__(s, o):
        if isinstance(o, int):
            return s // (1 << o)
        return _shift(s, o, False)

    def __rrshift__(s, o):
        return _shift(o, s, False)

    # ---- bitwise
    def __and__(s, o):
        return _bitop("and", s, o)
    __rand__ = __and__

    def __or__(s, o):
        return _bitop("or", s, o)
    __ror__ = __or__

    def __xor__(s, o):
        return _bitop("xor", s, o)
    __rxor__ = __xor__

    def __invert__(s):
        r = -s - 1
        if isinstance(r, SInt):
            r.inv_of = s
        return r

    # ---- comparisons: eager fork -> real bool
    def _cmp(s, o, f):
        if s.bits is not None and isinstance(o, int) and o == 0 and f in ("eq", "ne"):
            c = z3.Not(z3.Or(*s.bits)) if s.bits else z3.BoolVal(True)
            return CUR.branch(c if f == "eq" else z3.Not(c))
        a, b = s.t, T(o)
        return CUR.branch({"eq": a == b, "ne": a != b, "lt": a < b, "le": a <= b, "gt": a > b, "ge": a >= b}[f])

    def __eq__(s, o):
        if not isinstance(o, (int, SInt)):
            return False
        return s._cmp(o, "eq")

    def __ne__(s, o):
        if not isinstance(o, (int, SInt)):
            return True
        return s._cmp(o, "ne")

    def __lt__(s, o):
        return s._cmp(o, "lt")

    def __le__(s, o):
        return s._cmp(o, "le")

    def __gt__(s, o):
        return s._cmp(o, "gt")

    def __ge__(s, o):
        return s._cmp(o, "ge")

    def __bool__(s):
        return s._cmp(0, "ne")

    # ---- concretisation points
    def __index__(s):
        return CUR.concretize(s.t)
    __int__ = __index__

    def __hash__(s):
        if s.lo is None or s.hi is None or s.hi - s.lo > 16:
            raise Unsupported("hash() of a symbolic int with a large domain (dict/set keyed by a symbolic value)")
        return hash(CUR.concretize(s.t))

    def __repr__(s):
        return f"SInt({s._t if s._t is not None else 'bits%d' % len(s.bits)})"

    def __str__(s):
        return SymStr(s)

    def __format__(s, spec):
        if spec in ("x", "d", ""):
            return SymStr(s)          # opaque rendering (reaches uninterpreted hash functions without enumerating values)
        return format(CUR.concretize(s.t), spec)

    def bit_length(s):
        return int(s).bit_length()


class HInt(SInt):
    """A symbolic integer h given as h = q*m + r with 0 <= r < m (every integer has exactly one such decomposition):
    `h % m` is r itself, so the residue arithmetic of `hash % size` never reaches the solver as a `mod` term."""
    __slots__ = ("dec", "levels", "parts")

    def __mod__(s, o):
        m, r, q = s.dec
        if isinstance(o, int) and o == m:
            return r
        lv = getattr(s, "levels", None)
        if lv and isinstance(o, int) and o in lv:
            return lv[o]
        if isinstance(o, int) and o > 0 and o % m == 0 and isinstance(q, int):
            return Engine.compose(q % (o // m), m, r)
        if isinstance(o, int) and o > 0 and m % o == 0:
            return r % o                       # (q*m + r) % o == r % o when o divides m
        return SInt.__mod__(s, o)

    def __floordiv__(s, o):
        m, r, q = s.dec
        if isinstance(o, int) and o == m and q is not None:
            return q
        if isinstance(o, int) and o > 0 and o % m == 0 and isinstance(q, int):
            return q // (o // m)
        return SInt.__floordiv__(s, o)


class SRatio:
    """result of int / int on symbolic operands: kept as the exact pair (the float rounding of the quotient is not modelled)"""
    def __init__(self, num, den):
        self.num, self.den = num, den

    def __float__(self):
        raise Unsupported("float value of a symbolic ratio")


numbers.Integral.register(SInt)


class SymStr(str):
    """str(SInt): an opaque string that remembers the symbolic int it renders"""
    def __new__(cls, sint):
        o = super().__new__(cls, "<sym-int>")
        o.sym = sint
        return o


def ite(c, a, b):
    if isinstance(c, bool):
        return a if c else b
    c = z3.simplify(c)
    if z3.is_true(c):
        return a
    if z3.is_false(c):
        return b
    al, ah = _iv(a)
    bl, bh = _iv(b)
    lo = None if al is None or bl is None else min(al, bl)
    hi = None if ah is None or bh is None else max(ah, bh)
    ab, bb = getattr(a, "bits", None), getattr(b, "bits", None)
    if (ab is not None or isinstance(a, int) and a >= 0) and (bb is not None or isinstance(b, int) and b >= 0) \
            and (ab is not None or bb is not None):
        w = max(_width(a), _width(b))
        x, _ = _split(a, w)
        y, _ = _split(b, w)
        return _from_bits([z3.If(c, p, q) for p, q in zip(x, y)])
    return _mk(z3.If(c, T(a), T(b)), lo, hi)


def _from_bits(bits, high=None):
    bits = [z3.simplify(b) for b in bits]
    if isinstance(high, SInt) and high.bits is not None:       # keep the bit view: concatenate
        bits, high = bits + list(high.bits), None
    elif isinstance(high, int) and high >= 0:
        bits, high = bits + [z3.BoolVal(bool((high >> i) & 1)) for i in range(high.bit_length())], None
    while bits and z3.is_false(bits[-1]) and high is None:
        bits.pop()
    if high is not None:
        hl, hh = _iv(high)
        w = len(bits)
        return _mk(_bits_sum(bits) + T(high) * (1 << w), 0 if hl is not None and hl >= 0 else None,
                   None if hh is None else hh * (1 << w) + (1 << w) - 1)
    if all(z3.is_true(b) or z3.is_false(b) for b in bits):
        return sum((1 << i) for i, b in enumerate(bits) if z3.is_true(b))
    return SInt(None, 0, (1 << len(bits)) - 1, bits=bits)


def _width(x):
    lo, hi = _iv(x)
    if lo is None or hi is None or lo < 0:
        return None
    return max(hi.bit_length(), 1)


def _split(x, w):
    """x (non-negative) -> (bits[0:w], high) with x == high*2^w + sum(bits)"""
    if isinstance(x, int):
        if x < 0:
            raise Unsupported("bit view of a negative constant")
        return [z3.BoolVal(bool((x >> i) & 1)) for i in range(w)], x >> w
    if x.lo is None or x.lo < 0:
        if CUR.branch(x.t >= 0):
            x = SInt(x.t, 0, x.hi)
        else:
            raise Unsupported("bit view of a negative value")
    if x.bits is not None:
        if len(x.bits) <= w:
            return x.bits + [z3.BoolVal(False)] * (w - len(x.bits)), 0
        return x.bits[:w], _from_bits(x.bits[w:])
    n = next(_UNIQ)
    bits = [z3.Bool(f"_b{n}_{i}") for i in range(w)]
    s = _bits_sum(bits)
    if x.hi is not None and x.hi < (1 << w):
        CUR.solver.add(x.t == s)
        x.bits = bits
        return bits, 0
    high = z3.Int(f"_h{n}")
    CUR.solver.add(high >= 0, x.t == high * (1 << w) + s)
    return bits, SInt(high, 0, None if x.hi is None else x.hi >> w)


def bitlist(x, w):
    """exactly w Bool terms, the low bits of non-negative x (x < 2^w required by the caller)"""
    b, _ = _split(x, w)
    return b


def _shift(a, sh, left):
    lo, hi = _iv(sh)
    if lo is None or hi is None or hi - lo > 70 or lo < 0:
        v = CUR.concretize(T(sh))
        return (a << v) if left else (a >> v)
    if left and isinstance(a, int) and a == 1:
        return _from_bits([z3.BoolVal(False)] * lo + [sh.t == v for v in range(lo, hi + 1)])
    res = None
    for v in range(hi, lo - 1, -1):
        val = (a * (1 << v)) if left else (a // (1 << v))
        res = val if res is None else ite(sh.t == v, val, res)
    return res


def _bitop(op, a, b):
    if not isinstance(a, (int, SInt)) or not isinstance(b, (int, SInt)):
        return NotImplemented
    if isinstance(a, int) and isinstance(b, int):
        return {"and": a & b, "or": a | b, "xor": a ^ b}[op]
    if op == "and":
        for x, y in ((a, b), (b, a)):
            if isinstance(y, int) and y >= 0 and (y & (y + 1)) == 0:
                return x % (y + 1) if y else 0
        for x, y in ((a, b), (b, a)):      # x & ~m
            m = (~y if isinstance(y, int) and y < 0 else (y.inv_of if isinstance(y, SInt) else None))
            if m is not None:
                wm, wx = _width(m), _width(x)
                if wx is None or wm is None:
                    raise Unsupported("and-not on unbounded operands")
                w = max(wm, wx)
                bx, _ = _split(x, w)
                bm, _ = _split(m, w)
                return _from_bits([z3.And(p, z3.Not(q)) for p, q in zip(bx, bm)])
    wa, wb = _width(a), _width(b)
    if wa is None and wb is None:
        raise Unsupported(f"bitop {op} on unbounded operands")
    if op == "and":
        w = min(w_ for w_ in (wa, wb) if w_ is not None)
        ba, _ = _split(a, w)
        bb, _ = _split(b, w)
        return _from_bits([z3.And(*_canon(p, q)) for p, q in zip(ba, bb)])
    if wa is None or (wb is not None and wb < wa):
        small, wide, w = b, a, wb
    else:
        small, wide, w = a, b, wa
    bw, high = _split(wide, w)
    bs, _ = _split(small, w)
    f = z3.Or if op == "or" else z3.Xor
    return _from_bits([f(*_canon(p, q)) for p, q in zip(bw, bs)], high)


def _canon(*ts):
    """commutative arguments in a canonical order, so that a|b and b|a are the same term"""
    return sorted(ts, key=lambda t: t.get_id())


def popcount(x):
    """number of one bits of a non-negative value (model of bin(x).count('1'))"""
    if isinstance(x, int):
        return bin(x).count("1")
    w = _width(x)
    if w is None:
        raise Unsupported("popcount of unbounded value")
    bits, _ = _split(x, w)
    return _mk(z3.Sum([z3.If(b, 1, 0) for b in bits]), 0, w)


# ---------------------------------------------------------------------------- engine
class Engine:
    """One job: explores all paths of harness `fn(ctx)`; is itself the symbolic ctx facade."""
    sym = True

    def __init__(self, timeout_ms=60000, max_decisions=20000, retry_ms=240000, seed=0, witness_cap=2,
                 index_concretize_limit=0, path_seconds=300):
        self.path_seconds = path_seconds
        self.timeout_ms, self.retry_ms, self.max_decisions, self.seed = timeout_ms, retry_ms, max_decisions, seed
        self.n_queries = self.n_unsat = self.n_sat = self.n_unknown_q = 0
        self.solver_time = 0.0
        self.n_paths = self.n_completed = self.n_decisions = 0
        self.reached, self.proved, self.violated = {}, {}, {}
        self.unknown, self.violations, self.unsupported, self.budget = [], [], [], []
        self.timeouts = []
        self.unsup_paths = []
        self.inputs, self.uf_apps = {}, {}
        self.slow = []
        self.index_concretize_limit = index_concretize_limit
        self.witness_cap = witness_cap
        self.witnesses = []
        self.samples = []
        self.functions = set()
        self.installed = []
        self.obs = {}
        self.cfg = {}

    # ---- solver plumbing
    def _check(self, *extra):
        t0 = time.time()
        r = self.solver.check(*extra)
        if str(r) == "unknown" and self.retry_ms:
            self.solver.set("timeout", self.retry_ms)
            r = self.solver.check(*extra)
            self.solver.set("timeout", self.timeout_ms)
        dt = time.time() - t0
        self.solver_time += dt
        self.n_queries += 1
        s = str(r)
        if s == "unsat":
            self.n_unsat += 1
        elif s == "sat":
            self.n_sat += 1
        else:
            self.n_unknown_q += 1
        if dt > 2.0:
            self.slow.append((round(dt, 2), str(extra)[:80]))
        return s

    # ---- inputs
    def int(self, name, lo=None, hi=None):
        v = z3.Int(name)
        if lo is not None:
            self.solver.add(v >= lo)
        if hi is not None:
            self.solver.add(v <= hi)
        r = SInt(v, lo, hi)
        self.inputs[name] = r
        return r

    def hashval(self, name, m, lo=0, hi=2 ** 64 - 1):
        """an arbitrary integer in [lo, hi] that the code is expected to reduce modulo m (see HInt).
        m may be a list [m0, m1, ...] with m0 | m1 | ...: the residues modulo every listed value are mod-free terms."""
        mods = list(m) if isinstance(m, (list, tuple)) else [m]
        q, r0 = z3.Int(f"{name}.q"), z3.Int(f"{name}.r")
        self.solver.add(r0 >= 0, r0 < mods[0])
        res, parts, levels = r0, [q, r0], {mods[0]: SInt(r0, 0, mods[0] - 1)}
        for i in range(1, len(mods)):
            assert mods[i] % mods[i - 1] == 0
            d = z3.Int(f"{name}.d{i}")
            self.solver.add(d >= 0, d < mods[i] // mods[i - 1])
            res = res + mods[i - 1] * d
            parts.append(d)
            levels[mods[i]] = SInt(res, 0, mods[i] - 1)
        top = mods[-1]
        t = q * top + res
        self.solver.add(t >= lo, t <= hi)
        h = HInt(t, lo, hi)
        h.dec = (top, levels[top], None)
        h.levels, h.parts = levels, parts
        self.inputs[name] = h
        return h

    @staticmethod
    def compose(q, m, r):
        """the integer q*m + r for a concrete q and a symbolic r in [0, m)  (x // m is q and x % m is r without solver work)"""
        if isinstance(r, int) and isinstance(q, int):
            return q * m + r
        ql, qh = _iv(q)
        rl, rh = _iv(r)
        h = HInt(T(q) * m + T(r), None if ql is None else ql * m + (rl or 0), None if qh is None else qh * m + (rh if rh is not None else m - 1))
        h.dec = (m, r, q)
        h.levels = h.parts = None
        return h

    def bits(self, name, w):
        bits = [z3.Bool(f"{name}.{i}") for i in range(w)]
        r = SInt(None, 0, (1 << w) - 1, bits=bits)
        self.inputs[name] = r
        return r

    def boolean(self, name):
        b = z3.Bool(name)
        self.inputs[name] = b
        return b

    def uf(self, fname, arg, lo=None, hi=None, mod=None):
        """application of an uninterpreted function fname (Ackermann-style: equal arguments give equal results)"""
        apps = self.uf_apps.setdefault(fname, [])
        for a, v in apps:
            if a is arg or (isinstance(a, int) and isinstance(arg, int) and a == arg):
                return v
        n = len(apps)
        v = self.hashval(f"uf:{fname}:{n}", mod, lo, hi) if mod else self.int(f"uf:{fname}:{n}", lo, hi)
        for a, w in apps:
            same = z3.And(*[x == y for x, y in zip(v.parts, w.parts)]) if mod else v.t == T(w)
            self.solver.add(z3.Implies(T(a) == T(arg), same))
        apps.append((arg, v))
        return v

    # ---- logic facade (works on SInt / int / z3 Bool / bool)
    @staticmethod
    def eq(a, b): return z3.simplify(T(a) == T(b))
    @staticmethod
    def ne(a, b): return z3.simplify(T(a) != T(b))
    @staticmethod
    def lt(a, b): return z3.simplify(T(a) < T(b))
    @staticmethod
    def le(a, b): return z3.simplify(T(a) <= T(b))
    @staticmethod
    def gt(a, b): return z3.simplify(T(a) > T(b))
    @staticmethod
    def ge(a, b): return z3.simplify(T(a) >= T(b))
    @staticmethod
    def and_(*cs):
        cs = cs[0] if len(cs) == 1 and isinstance(cs[0], (list, tuple)) else cs
        return z3.And(*_canon(*[B(c) for c in cs])) if cs else z3.BoolVal(True)
    @staticmethod
    def or_(*cs):
        cs = cs[0] if len(cs) == 1 and isinstance(cs[0], (list, tuple)) else cs
        return z3.Or(*_canon(*[B(c) for c in cs])) if cs else z3.BoolVal(False)
    @staticmethod
    def not_(c): return z3.Not(B(c))
    @staticmethod
    def implies(a, b): return z3.Implies(B(a), B(b))
    @staticmethod
    def iff(a, b): return B(a) == B(b)

    @staticmethod
    def ite(c, a, b):
        if isinstance(a, bool) or z3.is_bool(a):
            return z3.If(B(c), B(a), B(b))
        return ite(B(c) if not isinstance(c, bool) else c, a, b)

    @staticmethod
    def sum(xs):
        r = 0
        for x in xs:
            r = r + x
        return r

    @staticmethod
    def bitlist(x, w):
        return bitlist(x, w)

    def ratio_is(self, r, num, den):
        """r (result of `a / b` in the library) is the quotient num/den"""
        if isinstance(r, SRatio):
            return self.and_(self.eq(r.num, num), self.eq(r.den, den))
        n, d = self.conc(num), self.conc(den)
        return d != 0 and r == n / d

    @staticmethod
    def popcount(x):
        return popcount(x)

    def all_eq(self, xs, ys):
        xs, ys = list(xs), list(ys)
        if len(xs) != len(ys):
            return False
        return self.and_([self.eq(a, b) for a, b in zip(xs, ys)])

    # ---- control
    def assume(self, c):
        if isinstance(c, bool):
            if not c:
                raise PathEnd()
            return
        c = z3.simplify(c)
        if z3.is_true(c):
            return
        self.solver.add(c)
        r = z3.is_false(c) and "unsat" or self._check()      # an assumption must leave the path feasible (vacuity guard)
        if r == "unsat":
            raise PathEnd()
        if r == "unknown":
            self.unknown.append(("assume", str(c)[:80]))

    def fork(self, c):
        if isinstance(c, bool):
            return c
        return self.branch(c)

    def conc(self, x):
        if isinstance(x, int):
            return x
        return self.concretize(T(x))

    def branch(self, cond):
        cond = z3.simplify(cond)
        if z3.is_true(cond):
            return True
        if z3.is_false(cond):
            return False
        i = len(self.decisions)
        if i >= self.max_decisions:
            raise Budget()
        if i < len(self.prefix):
            d = self.prefix[i]
            self.decisions.append(d)
            self.solver.add(cond if d else z3.Not(cond))
            return d
        if self.assume_feasible and i < 8:   # explore both sides without asking (sound: an infeasible side only yields vacuous proofs);
            # only for the first decisions of a path - a loop whose exit is never asked for would not terminate
            self.pending.append(self.decisions + [False])
            self.decisions.append(True)
            self.prefix.append(True)
            self.solver.add(cond)
            return True
        rt = self._check(cond)
        t_ok = rt != "unsat"
        if not t_ok:
            f_ok = True   # path condition is satisfiable by construction
        else:
            rf = self._check(z3.Not(cond))
            f_ok = rf != "unsat"
            if rf == "unknown":
                self.unknown.append(("branch", str(cond)[:80]))
        if rt == "unknown":
            self.unknown.append(("branch", str(cond)[:80]))
        if t_ok and f_ok:
            self.pending.append(self.decisions + [False])
            d = True
        elif t_ok:
            d = True
        else:
            d = False
        self.decisions.append(d)
        self.prefix.append(d)
        self.solver.add(cond if d else z3.Not(cond))
        return d

    def concretize(self, t):
        t = z3.simplify(t)
        if z3.is_int_value(t):
            return t.as_long()
        while True:
            i = len(self.decisions)
            if i >= self.max_decisions:
                raise Budget()
            if i < len(self.prefix):
                v = self.prefix[i][1]
            else:
                r = self._check()
                if r != "sat":
                    if r == "unknown":
                        self.unknown.append(("concretize", str(t)[:80]))
                    raise PathEnd()
                v = self.solver.model().eval(t, model_completion=True).as_long()
                self.prefix.append(("val", v))
            self.decisions.append(("val", v))
            if self.branch(t == v):
                return v

    def reach(self, label):
        self.reached[label] = self.reached.get(label, 0) + 1

    def observe(self, name, value):
        """value the concrete replay must reproduce (recorded with the witness)"""
        self.obs[name] = value

    def _model_inputs(self, model):
        def val(x):
            if isinstance(x, SInt):
                if x._t is not None:
                    return model.eval(x._t, model_completion=True).as_long()
                return sum((1 << i) for i, b in enumerate(x.bits) if z3.is_true(model.eval(b, model_completion=True)))
            if z3.is_bool(x):
                return bool(z3.is_true(model.eval(x, model_completion=True)))
            return model.eval(x, model_completion=True).as_long()
        ins = {k: val(x) for k, x in self.inputs.items()}
        ufs = {f: [[val(a) if not isinstance(a, int) else a, val(v)] for a, v in apps] for f, apps in self.uf_apps.items()}
        return ins, ufs

    def _violation(self, label, model):
        ins, ufs = self._model_inputs(model)
        self.violated[label] = self.violated.get(label, 0) + 1
        self.path_violated = True
        if sum(1 for v in self.violations if v["label"] == label) < 1:
            self.violations.append({"label": label, "inputs": ins, "uf": ufs, "decisions": len(self.decisions)})

    def check(self, cond, label):
        self.reach(label)
        if isinstance(cond, bool):
            if not cond:
                r = self._check()
                if r == "sat":
                    self._violation(label, self.solver.model())
                elif r == "unknown":
                    self.unknown.append(("check", label))
                return False        # the path goes on: later labels are still checked
            self.proved[label] = self.proved.get(label, 0) + 1
            return True
        self._dump(cond, label)
        r = self._check(z3.Not(cond))
        self._dump_result(r)
        ok = True
        if r == "sat":
            self._violation(label, self.solver.model())
            ok = False
        elif r == "unknown":
            self.unknown.append(("check", label))
        else:
            self.proved[label] = self.proved.get(label, 0) + 1
        self.solver.add(cond)   # continue under the assumption that it holds (other labels still get checked)
        if not ok and self._check() != "sat":
            raise PathEnd()
        return ok

    # ---- second-solver cross-check: dump assertion queries as SMT-LIB2 (from the original terms, before solving)
    dump_dir, dump_cap, _dumped, _last_dump = None, 25, 0, None
    assume_feasible = False

    def _dump(self, cond, label):
        self._last_dump = None
        if not self.dump_dir or self._dumped >= self.dump_cap:
            return
        s2 = z3.Solver()
        s2.add(self.solver.assertions())
        s2.add(z3.Not(cond))
        path = _os.path.join(self.dump_dir, f"{_os.getpid()}-{self.n_paths}-{self._dumped}.smt2")
        with open(path, "w") as f:
            f.write(f"; label {label}\n(set-logic ALL)\n" + s2.to_smt2())
        self._dumped += 1
        self._last_dump = path

    def _dump_result(self, r):
        if self._last_dump:
            with open(self._last_dump + ".expect", "w") as f:
                f.write(r)

    # ---- shims (installed per path by the harness, removed for concrete witness replays)
    def patch(self, obj, name, value):
        """set a module global / class attribute for the duration of the path (restored by unpatch_all)"""
        self.installed.append((obj, name, vars(obj).get(name, _MISSING)))
        setattr(obj, name, value)

    def on_exit(self, fn):
        """cleanup to run when the path / replay ends"""
        if not hasattr(self, "_cleanups") or self._cleanups is None:
            self._cleanups = []
        self._cleanups.append(fn)

    def unpatch_all(self):
        for fn in reversed(getattr(self, "_cleanups", None) or []):
            try:
                fn()
            except Exception:  # noqa: BLE001
                pass
        self._cleanups = []
        for obj, name, old in reversed(self.installed):
            if old is _MISSING:
                try:
                    delattr(obj, name)
                except AttributeError:
                    pass
            else:
                setattr(obj, name, old)
        self.installed = []

    # ---- exploration
    def explore(self, fn, max_paths=200000, max_seconds=None, witness_fn=None, trace_functions=True):
        global CUR
        CUR = self
        self.pending = [[]]
        t0 = time.time()
        self.timed_out = False
        while self.pending and self.n_paths < max_paths:
            if max_seconds and time.time() - t0 > max_seconds:
                self.timed_out = True
                break
            if len(self.timeouts) >= 2:       # two paths already ran into the per-path time limit: stop this job (it is inconclusive / non-terminating anyway)
                self.timed_out = True
                break
            self.prefix = list(self.pending.pop())
            self.decisions = []
            self.solver = z3.Solver()
            self.solver.set("timeout", self.timeout_ms)
            if self.seed:
                self.solver.set("random_seed", self.seed)
            self.inputs, self.uf_apps, self.obs = {}, {}, {}
            self.bv_obligations = []
            self.path_violated = False
            self.n_paths += 1
            completed = False
            tracing = trace_functions and self.n_paths <= 3 and not _os.environ.get('PVX_NOTRACE')
            if tracing:
                sys.setprofile(self._profile)
            normal_end = False
            _alarm(self.path_seconds)
            try:
                fn(self)
                completed = normal_end = True
            except PathEnd:
                completed = True
            except Unsupported as e:
                self.unsupported.append(str(e)[:120])
                _alarm(0)
                if len(self.unsup_paths) < 2:    # concolic fallback: inputs that drive the real code to the point the model cannot follow
                    try:
                        if self._check() == "sat":
                            ins, ufs = self._model_inputs(self.solver.model())
                            self.unsup_paths.append({"inputs": ins, "uf": ufs, "why": str(e)[:120]})
                    except Exception:  # noqa: BLE001
                        pass
            except Budget:
                self.budget.append(len(self.decisions))
                _alarm(0)
                if len(self.timeouts) < 2:      # candidate non-termination: keep the inputs for a concrete replay under a time limit
                    try:
                        if self._check() == "sat":
                            ins, ufs = self._model_inputs(self.solver.model())
                            self.timeouts.append({"inputs": ins, "uf": ufs, "decisions": len(self.decisions)})
                    except Exception:  # noqa: BLE001
                        pass
            except RecursionError:
                self.unsupported.append("RecursionError")
            except z3.Z3Exception as e:     # harness/engine misuse of a term, not library behaviour
                self.unsupported.append(f"Z3Exception: {e!r}"[:160])
            except Exception as e:  # unexpected exception escaping the library = candidate violation
                from .concrete import raised_by_harness
                if raised_by_harness(e):      # renamed private member: harness / tree mismatch, inconclusive
                    self.unsupported.append(f"harness relies on a private member this tree does not have: {e!r}"[:160])
                    self.n_decisions += len(self.decisions)
                    self.unpatch_all()
                    continue
                label = f"no-unexpected-exception:{type(e).__name__}"
                self.reach(label)
                r = self._check()
                if r == "sat":
                    self._violation(label, self.solver.model())
                    self.violations[-1]["exception"] = repr(e)[:200]
                elif r == "unknown":
                    self.unknown.append(("exception", label))
            finally:
                _alarm(0)
                if tracing:
                    sys.setprofile(None)
            self.n_decisions += len(self.decisions)
            if completed:
                self.n_completed += 1
                if witness_fn is not None and normal_end and not self.path_violated and len(self.witnesses) < self.witness_cap and self.inputs:
                    if self._check() == "sat":
                        ins, ufs = self._model_inputs(self.solver.model())
                        self.unpatch_all()
                        self.witnesses.append(witness_fn(ins, ufs))
                        if len(self.samples) < 2:
                            self.samples.append({"decisions": len(self.decisions), "inputs": _short(ins)})
            self.unpatch_all()
        self.wall = time.time() - t0
        return self

    def _profile(self, frame, event, arg):
        if event == "call":
            co = frame.f_code
            fn = co.co_filename
            if "/probables/" in fn and co.co_flags & 0x1:     # functions only (no module / class bodies)
                self.functions.add(fn.split("/probables/", 1)[1][:-3].replace("/", ".") + ":" + getattr(co, "co_qualname", co.co_name))

    def summary(self):
        return dict(paths=self.n_paths, completed=self.n_completed, decisions=self.n_decisions, queries=self.n_queries,
                    unsat=self.n_unsat, sat=self.n_sat, unknown_q=self.n_unknown_q,
                    solver_s=round(self.solver_time, 2), wall_s=round(self.wall, 2), reached=self.reached,
                    proved=self.proved, violated=self.violated, unknown=self.unknown[:20], violations=self.violations,
                    unsupported=self.unsupported[:10], unsup_paths=self.unsup_paths, budget=self.budget[:10], timeouts=self.timeouts, pending=len(self.pending),
                    timed_out=self.timed_out, slow=self.slow[:5], witnesses=self.witnesses, samples=self.samples,
                    functions=sorted(self.functions))


_MISSING = object()


def _on_alarm(signum, frame):
    raise Budget()


def _alarm(seconds):
    import signal
    import threading
    if threading.current_thread() is threading.main_thread():
        signal.signal(signal.SIGALRM, _on_alarm)
        signal.alarm(int(seconds))


def _short(d, n=12):
    out = {}
    for i, (k, v) in enumerate(d.items()):
        if i >= n:
            out["..."] = f"{len(d) - n} more"
            break
        out[k] = v
    return out


# ---------------------------------------------------------------------------- bit-vector kernel values (shape K)
WIDE = 136


class SBV:
    """A Python int that provably stays in [0, 2^WIDE): arithmetic on a wide bit-vector, with a no-overflow
    obligation per + and * (collected in CUR.bv_obligations and discharged by the harness), so the model is exact."""
    __slots__ = ("t",)

    def __init__(self, t):
        self.t = t

    @staticmethod
    def lift(x):
        if isinstance(x, SBV):
            return x.t
        if isinstance(x, NBV):
            return z3.ZeroExt(WIDE - x.w, x.t)
        if isinstance(x, int) and 0 <= x < (1 << WIDE):
            return z3.BitVecVal(x, WIDE)
        raise Unsupported(f"SBV operand {type(x)} {x!r}"[:80])

    def __add__(s, o):
        r = s.t + SBV.lift(o)
        CUR.bv_obligations.append(z3.UGE(r, s.t))                       # no wrap-around (portable SMT-LIB)
        return SBV(r)
    __radd__ = __add__

    def __mul__(s, o):
        if isinstance(o, int) and o > 0:                                   # constant factor: exact bound, portable SMT-LIB
            CUR.bv_obligations.append(z3.ULE(s.t, z3.BitVecVal(((1 << WIDE) - 1) // o, WIDE)))
        elif not (isinstance(o, int) and o == 0):
            CUR.bv_obligations.append(z3.BVMulNoOverflow(s.t, SBV.lift(o), False))
        return SBV(s.t * SBV.lift(o))
    __rmul__ = __mul__

    def __and__(s, o):
        return SBV(s.t & SBV.lift(o))
    __rand__ = __and__

    def __or__(s, o):
        return SBV(s.t | SBV.lift(o))
    __ror__ = __or__

    def __xor__(s, o):
        return SBV(s.t ^ SBV.lift(o))
    __rxor__ = __xor__

    def __rshift__(s, o):
        if not isinstance(o, int):
            raise Unsupported("symbolic shift of SBV")
        return SBV(z3.LShR(s.t, o))

    def __lshift__(s, o):
        if not isinstance(o, int):
            raise Unsupported("symbolic shift of SBV")
        CUR.bv_obligations.append(z3.LShR(s.t, WIDE - o) == 0)
        return SBV(s.t << o)

    def _cmp(s, o, f):
        a, b = s.t, SBV.lift(o)
        return CUR.branch({"eq": a == b, "ne": a != b, "lt": z3.ULT(a, b), "le": z3.ULE(a, b), "gt": z3.UGT(a, b), "ge": z3.UGE(a, b)}[f])

    def __eq__(s, o):
        return s._cmp(o, "eq") if isinstance(o, (int, SBV, NBV)) else False

    def __ne__(s, o):
        return s._cmp(o, "ne") if isinstance(o, (int, SBV, NBV)) else True

    def __lt__(s, o): return s._cmp(o, "lt")
    def __le__(s, o): return s._cmp(o, "le")
    def __gt__(s, o): return s._cmp(o, "gt")
    def __ge__(s, o): return s._cmp(o, "ge")
    __hash__ = None


numbers.Integral.register(SBV)


class NBV:
    """w-bit modular value (the reference side of a kernel obligation)"""
    __slots__ = ("t", "w")

    def __init__(self, t, w):
        self.t, self.w = t, w

    def _o(s, o):
        return o.t if isinstance(o, NBV) else z3.BitVecVal(o, s.w)

    def __add__(s, o): return NBV(s.t + s._o(o), s.w)
    def __mul__(s, o): return NBV(s.t * s._o(o), s.w)
    def __xor__(s, o): return NBV(s.t ^ s._o(o), s.w)
    def __and__(s, o): return NBV(s.t & s._o(o), s.w)
    def __sub__(s, o): return NBV(s.t - s._o(o), s.w)
    def zext(s, w): return NBV(z3.ZeroExt(w - s.w, s.t), w) if w > s.w else s
    def trunc(s, w): return NBV(z3.Extract(w - 1, 0, s.t), w) if w < s.w else s
    def eq(s, o): return s.t == s._o(o)
    def ult(s, o): return z3.ULT(s.t, s._o(o))


def _bv_methods():
    def bv(self, name, w):
        v = z3.BitVec(name, w)
        self.inputs[name] = v
        return NBV(v, w)

    def bvconst(self, v, w):
        return NBV(z3.BitVecVal(v, w), w)

    def wide(self, x):
        """the Python int with the (unsigned) value of x, as a proxy the real code computes with"""
        return SBV(SBV.lift(x))

    def narrow(self, x, w):
        """low w bits of a proxy / int"""
        if isinstance(x, int):
            return NBV(z3.BitVecVal(x & ((1 << w) - 1), w), w)
        return NBV(z3.Extract(w - 1, 0, SBV.lift(x)), w)

    def fits(self, x, w):
        if isinstance(x, int):
            return 0 <= x < (1 << w)
        return z3.ULT(SBV.lift(x), z3.BitVecVal(1 << w, WIDE))

    def same_int(self, x, y):
        if isinstance(x, int) and isinstance(y, int):
            return x == y
        return SBV.lift(x) == SBV.lift(y)

    def no_overflow(self):
        obs, self.bv_obligations = self.bv_obligations, []
        return z3.And(*obs) if obs else True
    for f in (bv, bvconst, wide, narrow, fits, same_int, no_overflow):
        setattr(Engine, f.__name__, f)
    Engine.bv_obligations = []


_bv_methods()
_orig_model_inputs = Engine._model_inputs


def _model_inputs_bv(self, model):
    bvs = {k: v for k, v in self.inputs.items() if z3.is_bv(v)}
    saved = self.inputs
    self.inputs = {k: v for k, v in saved.items() if k not in bvs}
    try:
        ins, ufs = _orig_model_inputs(self, model)
    finally:
        self.inputs = saved
    for k, v in bvs.items():
        ins[k] = model.eval(v, model_completion=True).as_long()
    return ins, ufs


Engine._model_inputs = _model_inputs_bv


def _fp_methods():
    def fp(self, name):
        """an arbitrary binary64 value (any bit pattern); the replay file stores the IEEE bit pattern"""
        from . import fp as _fp
        v = z3.FP(name, _fp.D)
        self.inputs[name] = z3.fpToIEEEBV(v)
        return _fp.SF(v)
    Engine.fp = fp


_fp_methods()
