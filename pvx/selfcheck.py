"""setup_cmd: nothing to build (pure Python); verifies that the tooling the checks need is present."""
import sys


def main():
    import z3
    from . import env  # noqa: F401
    import probables  # noqa: F401  (from /repo)
    print("pvx selfcheck ok: python", sys.version.split()[0], "z3", z3.get_version_string(), "probables from", probables.__file__)
    return 0


if __name__ == "__main__":
    sys.exit(main())
