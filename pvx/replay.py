"""Concrete replay of a counterexample file on the real, unshimmed classes of /repo.

    python3-vt -m pvx.replay <file>        (also: /venv/bin/python -m pvx.replay <file>)

exit 1 if the recorded assertion label fails again (the violation reproduces), 0 otherwise."""
import importlib
import json
import sys

from . import env  # noqa: F401
from .concrete import run_concrete


def main(argv=None):
    argv = argv if argv is not None else sys.argv[1:]
    d = json.load(open(argv[0]))
    m = importlib.import_module(d["module"])
    fn = m.HARNESS[d["harness"]]
    r = run_concrete(lambda ctx: fn(ctx, d["cfg"]), d["inputs"], d.get("uf"), d["cfg"])
    print(f"replay {d['property']} {d['harness']} cfg={d['cfg']} python={sys.version.split()[0]}")
    print(f"  inputs: {d['inputs']}")
    if any(k.startswith("rnd") for k in d["inputs"]):
        print("  note: random.choice/randint are scripted with the rnd* inputs for the duration of the call")
    print(f"  failed labels: {r['failed']}  exception: {r['exception']}")
    print(f"  observations: {r['obs']}")
    if d["label"] in r["failed"]:
        print(f"REPRODUCED: assertion '{d['label']}' fails on the real classes")
        return 1
    print(f"not reproduced: assertion '{d['label']}' holds on this input")
    return 0


if __name__ == "__main__":
    sys.exit(main())
