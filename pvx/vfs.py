"""VFS: the file-system / mmap model used in symbolic mode (DESIGN section 4).

Files are lists of chunks (value, size, big_endian) - whole 8-byte footer fields and 1-byte bit cells stay whole - plus an
ordered EFFECT LOG.  Buffered writes reach the file at flush/close/seek, mmap stores immediately.  A symbolic crash index
selects a prefix of the log (process-kill model: what reached the page cache survives; no power loss, no torn writes).
Directories are ids (ints or symbolic ints); the current directory is a field of the VFS."""
import io

import z3

from . import engine
from .engine import SInt, T, ite, Unsupported
from .shims import SymBytes, as_symbytes


class VPath:
    def __init__(self, d, name):
        self.dir, self.name_ = d, name

    @property
    def name(self):
        return self.name_          # like pathlib: the final component only

    def __eq__(self, o):
        if not isinstance(o, VPath):
            return False
        return self.name_ == o.name_ and bool(self.dir == o.dir)

    def __ne__(self, o):
        return not self.__eq__(o)

    def __hash__(self):
        return hash(self.name_)

    def __str__(self):
        s = VStr(f"<dir {self.dir}>/{self.name_}")
        s.vpath = self
        return s

    def __fspath__(self):
        return str(self)

    def __bool__(self):
        return True

    def exists(self):
        return VFS.CUR.lookup(self) is not None

    def expanduser(self):
        return self

    def resolve(self):
        return self


class VStr(str):
    """str(VPath): remembers the path it renders"""


class VFile:
    def __init__(self, d, name, fs):
        self.dir, self.name, self.fs = d, name, fs
        self.chunks = []       # [value, size, be]
        self.log = []          # (seq, kind, position, chunks | (index term, value))

    def size(self):
        return sum(c[1] for c in self.chunks)

    def content(self):
        return SymBytes([tuple(c) for c in self.chunks])

    def _explode(self):
        self.chunks = [[b, 1, False] for b in self.content().byte_list()]

    def write_at(self, pos, data, kind):
        """one effect: data (SymBytes) lands at byte offset pos"""
        self.fs.seq += 1
        data = as_symbytes(data)
        self.log.append((self.fs.seq, kind, pos, [list(c) for c in data.chunks]))
        self._apply(self.chunks, pos, data.chunks)

    def _apply(self, chunks, pos, new):
        size = sum(c[1] for c in chunks)
        if pos > size:
            chunks += [[0, 1, False]] * (pos - size)
            size = pos
        if pos == size:
            chunks += [list(c) for c in new]
            return
        # replace: aligned with existing chunk boundaries and same sizes -> cell-wise, otherwise byte-wise
        offs, i = 0, 0
        while i < len(chunks) and offs < pos:
            offs += chunks[i][1]
            i += 1
        if offs == pos:
            j, ok = i, True
            for c in new:
                if j < len(chunks) and chunks[j][1] == c[1]:
                    j += 1
                else:
                    ok = j >= len(chunks)
                    break
            if ok:
                for n_, c in enumerate(new):
                    if i + n_ < len(chunks):
                        chunks[i + n_] = list(c)
                    else:
                        chunks.append(list(c))
                return
        flat = [[b, 1, False] for b in SymBytes([tuple(c) for c in chunks]).byte_list()]
        nb = [[b, 1, False] for b in SymBytes([tuple(c) for c in new]).byte_list()]
        flat[pos:pos + len(nb)] = nb
        chunks[:] = flat

    def store(self, idx, value):
        """mmap store of one byte at a (possibly symbolic) index"""
        self.fs.seq += 1
        self.log.append((self.fs.seq, "mmap-store", idx, value))
        self._store(self.chunks, idx, value, None)

    def _store(self, chunks, idx, value, live):
        offs = 0
        for c in chunks:
            if c[1] == 1:
                if isinstance(idx, SInt):
                    if (idx.lo is None or idx.lo <= offs) and (idx.hi is None or offs <= idx.hi):
                        cond = idx.t == offs if live is None else z3.And(live, idx.t == offs)
                        c[0] = ite(cond, value, c[0])
                elif idx == offs:
                    c[0] = value if live is None else ite(live, value, c[0])
            elif isinstance(idx, SInt):
                if not (idx.hi is not None and idx.hi < offs or idx.lo is not None and idx.lo >= offs + c[1]):
                    raise Unsupported("mmap store may hit a multi-byte cell")
            elif offs <= idx < offs + c[1]:
                raise Unsupported("mmap store into a multi-byte cell")
            offs += c[1]

    def snapshot(self, base_chunks, base_seq, crash):
        """content if the process is killed right after effect number `crash` (symbolic)"""
        chunks = [list(c) for c in base_chunks]
        for seq, kind, pos, payload in self.log:
            if seq <= base_seq:
                continue
            live = T(crash) >= seq
            if kind == "mmap-store":
                self._store(chunks, pos, payload, live)
            else:
                before = [list(c) for c in chunks]
                self._apply(chunks, pos, payload)
                if [c[1] for c in before] != [c[1] for c in chunks]:
                    raise Unsupported("crash snapshot across a write that changes the file layout")
                for c_old, c_new in zip(before, chunks):
                    c_new[0] = ite(live, c_new[0], c_old[0])
        return SymBytes([tuple(c) for c in chunks])


class VHandle(io.IOBase):
    """buffered file object: writes reach the file at flush / close / seek / read"""

    def __init__(self, vf, mode):
        self.vf, self.mode, self.pos, self.pending, self._closed = vf, mode, 0, [], False

    def __enter__(self):
        return self

    def __exit__(self, *a):
        self.close()

    @property
    def closed(self):
        return self._closed

    def fileno(self):
        return self

    def seek(self, off, whence=0):
        self.flush()
        self.pos = off if whence == 0 else (self.vf.size() + off if whence == 2 else self.pos + off)
        return self.pos

    def tell(self):
        return self.pos

    def read(self, n=-1):
        self.flush()
        end = self.vf.size() if n is None or n < 0 else min(self.pos + n, self.vf.size())
        out = self.vf.content()[self.pos:end]
        self.pos = end
        return out

    def write(self, b):
        b = as_symbytes(b)
        self.pending.append((self.pos, b))
        self.pos += len(b)
        return len(b)

    def flush(self):
        for pos, b in self.pending:
            self.vf.write_at(pos, b, "write")
        self.pending = []

    def truncate(self, size=None):
        self.flush()
        size = self.pos if size is None else size
        cur = self.vf.size()
        self.vf.fs.seq += 1
        self.vf.log.append((self.vf.fs.seq, "truncate", size, []))
        if size >= cur:
            self.vf.chunks += [[0, 1, False] for _ in range(size - cur)]
        else:
            self.vf._explode()
            del self.vf.chunks[size:]
        return size

    def close(self):
        if not self._closed:
            self.flush()
            self._closed = True


class VMap:
    """mmap.mmap over a VHandle: loads and stores go straight to the file"""

    def __init__(self, handle, length=0, access=None, **kw):
        self.vf, self.closed, self.readonly = handle.vf, False, access is not None
        self.pos = 0

    def __len__(self):
        return self.vf.size()

    def to_symbytes(self):
        return self.vf.content()

    def __getitem__(self, i):
        if isinstance(i, slice):
            return self.vf.content()[i]
        cells = self.vf.content().byte_list() if any(c[1] != 1 for c in self.vf.chunks) and not isinstance(i, SInt) else None
        if isinstance(i, SInt):
            # only single-byte cells inside the index interval may be addressed
            offs, cand = 0, []
            for c in self.vf.chunks:
                if c[1] == 1 and (i.lo is None or i.lo <= offs) and (i.hi is None or offs <= i.hi):
                    cand.append((offs, c[0]))
                elif c[1] != 1 and not (i.hi is not None and i.hi < offs or i.lo is not None and i.lo >= offs + c[1]):
                    raise Unsupported("mmap load may hit a multi-byte cell")
                offs += c[1]
            if not cand:
                raise IndexError("mmap index out of range")
            res = cand[-1][1]
            for o, v in reversed(cand[:-1]):
                res = ite(i.t == o, v, res)
            return res
        if cells is not None:
            return cells[i]
        n = len(self.vf.chunks)
        if not -n <= i < n:
            raise IndexError("mmap index out of range")
        return self.vf.chunks[i][0]

    def __setitem__(self, i, v):
        if self.readonly:
            raise TypeError("mmap can't modify a readonly memory map.")
        if isinstance(v, SInt):
            if not (v.lo is not None and v.hi is not None and 0 <= v.lo and v.hi <= 255):
                if not engine.CUR.branch(z3.And(v.t >= 0, v.t <= 255)):
                    raise ValueError("mmap item value must be in range(0, 256)")
        elif not 0 <= v <= 255:
            raise ValueError("mmap item value must be in range(0, 256)")
        self.vf.store(i, v)

    def flush(self):
        return None

    def close(self):
        self.closed = True

    def seek(self, pos, whence=0):
        self.pos = pos if whence == 0 else (len(self) + pos if whence == 2 else self.pos + pos)

    def read(self, n=-1):
        end = len(self) if n is None or n < 0 else min(self.pos + n, len(self))
        out = self.vf.content()[self.pos:end]
        self.pos = end
        return out


class _MmapMeta(type):
    def __instancecheck__(cls, x):
        return isinstance(x, VMap)

    def __call__(cls, *a, **k):
        return VMap(*a, **k)


class MmapShim(metaclass=_MmapMeta):
    ACCESS_READ = 1


class VMMapWrapper:
    """probables.utilities.MMap: context manager yielding a read-only map"""

    def __init__(self, path):
        self.h = VFS.CUR.open(path, "rb")
        self.m = VMap(self.h, 0, access=1)

    def __enter__(self):
        return self.m

    def __exit__(self, *a):
        self.m.close()
        self.h.close()


class VFS:
    CUR = None

    def __init__(self, ctx, cwd=0):
        self.ctx, self.cwd, self.files, self.seq = ctx, cwd, [], 0
        VFS.CUR = self

    def resolve_path(self, p):
        if isinstance(p, VPath):
            return p
        if isinstance(p, VStr):
            return p.vpath
        return VPath(self.cwd, str(p))

    def path_ctor(self, p):
        """stands in for pathlib.Path(x) inside the library"""
        return self.resolve_path(p)

    def lookup(self, p):
        p = self.resolve_path(p)
        for f in self.files:
            if f.name == p.name_ and bool(f.dir == p.dir):
                return f
        return None

    def is_valid_file(self, p):
        return p is not None and self.lookup(p) is not None

    def open(self, p, mode="r", **kw):
        f = self.lookup(p)
        if f is None:
            if "w" not in mode:
                raise FileNotFoundError(str(p))
            q = self.resolve_path(p)
            f = VFile(q.dir, q.name_, self)
            self.files.append(f)
        elif "w" in mode:
            self.seq += 1
            f.log.append((self.seq, "truncate", 0, []))
            f.chunks = []
        return VHandle(f, mode)

    def copyfile(self, src, dst):
        s = self.lookup(src)
        if s is None:
            raise FileNotFoundError(str(src))
        d = self.open(dst, "wb")
        d.write(s.content())
        d.close()

    def install(self, ctx, module, names):
        table = {"open": self.open, "resolve_path": self.resolve_path, "is_valid_file": self.is_valid_file,
                 "copyfile": self.copyfile, "MMap": VMMapWrapper, "mmap": MmapShim, "Path": self.path_ctor}
        for n in names:
            if n in vars(module) or n in ("open",):
                ctx.patch(module, n, table[n])
