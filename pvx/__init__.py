"""pvx - solver-based checking of barrust/pyprobables (see /verif/DESIGN.md)."""
