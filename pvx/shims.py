"""Container / environment models used in symbolic mode (DESIGN section 4).  Every class here is a *stub* and is
listed in the evidence of the checks that install it."""
import builtins
import io
import struct as _struct

import z3

from . import engine
from .engine import SInt, T, ite, Unsupported


# ---------------------------------------------------------------------------- array.array
class SymArray:
    """Model of array.array: concrete length, symbolic cells, range check per typecode (OverflowError)."""
    RANGES = {"B": (0, 255), "I": (0, 2**32 - 1), "i": (-2**31, 2**31 - 1), "L": (0, 2**64 - 1), "Q": (0, 2**64 - 1)}
    SIZES = {"B": 1, "I": 4, "i": 4, "L": 8, "Q": 8}

    def __init__(self, typecode, init=()):
        self.typecode = typecode
        self.itemsize = self.SIZES[typecode]
        self.cells = []
        if isinstance(init, SymBytes):
            self.cells = init.cells(self.itemsize, signed=typecode == "i")
        elif isinstance(init, (builtins.bytes, builtins.bytearray)):
            self.cells = as_symbytes(init).cells(self.itemsize, signed=typecode == "i")
        else:
            for v in init:
                self.append(v)

    def _chk(self, v):
        lo, hi = self.RANGES[self.typecode]
        if isinstance(v, SInt):
            if not (v.lo is not None and v.hi is not None and lo <= v.lo and v.hi <= hi):
                if not engine.CUR.branch(z3.And(v.t >= lo, v.t <= hi)):
                    raise OverflowError("array value out of range")
                v = SInt(v._t, lo if v.lo is None else max(lo, v.lo), hi if v.hi is None else min(hi, v.hi), bits=v.bits)
        elif isinstance(v, (bool, int)):
            if not lo <= v <= hi:
                raise OverflowError("array value out of range")
        else:
            raise TypeError(f"an integer is required (got type {type(v).__name__})")
        return v

    def append(self, v):
        self.cells.append(self._chk(v))

    def extend(self, it):
        for v in it:
            self.append(v)
    fromlist = extend

    def __len__(self):
        return len(self.cells)

    def __iter__(self):
        return iter(list(self.cells))

    def __mul__(self, n):
        r = SymArray(self.typecode)
        r.cells = self.cells * n
        return r

    def _idx(self, i):
        n = len(self.cells)
        if isinstance(i, SInt) and n <= engine.CUR.index_concretize_limit:
            i = engine.CUR.concretize(i.t)
        if isinstance(i, SInt):
            if i >= 0:
                if i < n:
                    return i
                raise IndexError("array index out of range")
            if i >= -n:
                return i + n
            raise IndexError("array index out of range")
        if not -n <= i < n:
            raise IndexError("array index out of range")
        return i % n

    def __getitem__(self, i):
        if isinstance(i, slice):
            r = SymArray(self.typecode)
            r.cells = self.cells[i]
            return r
        i = self._idx(i)
        if isinstance(i, int):
            return self.cells[i]
        lo = max(i.lo or 0, 0)
        hi = min(i.hi if i.hi is not None else len(self.cells) - 1, len(self.cells) - 1)
        res = self.cells[hi]
        for j in range(hi - 1, lo - 1, -1):
            res = ite(i.t == j, self.cells[j], res)
        return res

    def __setitem__(self, i, v):
        v = self._chk(v)
        i = self._idx(i)
        if isinstance(i, int):
            self.cells[i] = v
        else:
            self.cells = [ite(i.t == j, v, c) if (i.lo is None or i.lo <= j) and (i.hi is None or j <= i.hi) else c
                          for j, c in enumerate(self.cells)]

    def remove(self, v):
        for j, c in enumerate(self.cells):
            if c == v:
                del self.cells[j]
                return
        raise ValueError("array.remove(x): x not in array")

    def index(self, v):
        for j, c in enumerate(self.cells):
            if c == v:
                return j
        raise ValueError("array.index(x): x not in array")

    def tofile(self, f):
        f.write(self.tobytes())

    def tobytes(self):
        mod = 1 << (8 * self.itemsize)
        return SymBytes([((c % mod) if self.typecode == "i" else c, self.itemsize, False) for c in self.cells])

    def __eq__(self, o):
        if not isinstance(o, SymArray) or len(o) != len(self):
            return False
        return all(a == b for a, b in zip(self.cells, o.cells))


# ---------------------------------------------------------------------------- bytes
class SymBytes:
    """sequence of bytes stored as chunks (value, size, big_endian) so whole cells survive a round trip"""

    def __init__(self, chunks=()):
        self.chunks = list(chunks)

    def __len__(self):
        return sum(c[1] for c in self.chunks)

    def __add__(self, o):
        return SymBytes(self.chunks + as_symbytes(o).chunks)

    def __radd__(self, o):
        return SymBytes(as_symbytes(o).chunks + self.chunks)

    def byte_list(self):
        out = []
        for v, n, be in self.chunks:
            if n == 1:
                out.append(v)
                continue
            bs = [(v // (1 << (8 * i))) % 256 for i in range(n)]
            out += bs[::-1] if be else bs
        return out

    def __iter__(self):
        return iter(self.byte_list())

    def __getitem__(self, s):
        if not isinstance(s, slice):
            return self.byte_list()[s]
        start, stop, step = s.indices(len(self))
        if step != 1:
            raise Unsupported("stepped slice of symbolic bytes")
        out, pos = [], 0
        for v, n, be in self.chunks:
            a, b = pos, pos + n
            if b <= start or a >= stop:
                pass
            elif a >= start and b <= stop:
                out.append((v, n, be))
            else:                                   # cut through a cell: split into bytes
                bs = SymBytes([(v, n, be)]).byte_list()
                out += [(x, 1, False) for x in bs[max(start, a) - a: min(stop, b) - a]]
            pos = b
        return SymBytes(out)

    def cells(self, size, be=False, signed=False):
        """regroup into cells of `size` bytes (length must be a multiple, like array.array(bytes))"""
        out, buf = [], []
        for v, n, b in self.chunks:
            if n == size and not buf and b == be:
                out.append(v)
                continue
            buf += SymBytes([(v, n, b)]).byte_list()
            while len(buf) >= size:
                grp, buf = buf[:size], buf[size:]
                if be:
                    grp = grp[::-1]
                out.append(sum(x * (1 << (8 * i)) for i, x in enumerate(grp)))
        if buf:
            raise ValueError("bytes length not a multiple of item size")
        if signed:
            half, mod = 1 << (8 * size - 1), 1 << (8 * size)
            out = [(ite(T(v) >= half, v - mod, v) if isinstance(v, SInt) else (v - mod if v >= half else v)) for v in out]
        return out

    def concrete(self):
        bs = self.byte_list()
        if not all(isinstance(b, int) for b in bs):
            raise Unsupported("symbolic bytes where concrete bytes are needed")
        return builtins.bytes(bs)


def as_symbytes(x):
    if isinstance(x, SymBytes):
        return x
    if isinstance(x, SymArray):
        return x.tobytes()
    if hasattr(x, "to_symbytes"):
        return x.to_symbytes()
    return SymBytes([(b, 1, False) for b in builtins.bytes(x)])


class _BytesMeta(type):
    def __instancecheck__(cls, x):
        return isinstance(x, cls._real) or isinstance(x, SymBytes)

    def __call__(cls, *a, **k):
        if a and (isinstance(a[0], (SymBytes, SymArray)) or hasattr(a[0], "to_symbytes")):
            return as_symbytes(a[0])
        if a and isinstance(a[0], list) and any(isinstance(v, SInt) for v in a[0]):
            return SymBytes([(v, 1, False) for v in a[0]])
        if len(a) == 1 and not k and cls._real is builtins.bytes and hasattr(type(a[0]), "__bytes__") \
                and not isinstance(a[0], (builtins.bytes, builtins.bytearray)):
            r = a[0].__bytes__()        # bytes(structure): the library's own __bytes__ may hand back the byte-string model
            return r if isinstance(r, SymBytes) else cls._real(r)
        return cls._real(*a, **k)


class BytesShim(metaclass=_BytesMeta):
    _real = builtins.bytes


class BytearrayShim(metaclass=_BytesMeta):
    _real = builtins.bytearray
    fromhex = builtins.bytearray.fromhex


class _IntMeta(type):
    def __instancecheck__(cls, x):
        return isinstance(x, builtins.int)

    def __call__(cls, *a, **k):
        if a and isinstance(a[0], SInt):
            return a[0]
        return builtins.int(*a, **k)


class IntShim(metaclass=_IntMeta):
    """int(x): identity on proxies (otherwise int(els_added) would enumerate 64-bit values)"""


class _Bin:
    def __init__(self, x):
        self.x = x

    def count(self, what):
        assert what == "1"
        return engine.popcount(self.x)


def bin_shim(x):
    return _Bin(x) if isinstance(x, SInt) else bin(x)


class SymFile(io.IOBase):
    """file object collecting writes (also stands in for BytesIO)"""

    def __init__(self, *a):
        self.data = SymBytes()

    def write(self, b):
        b = as_symbytes(b)
        self.data = self.data + b
        return len(b)

    def getvalue(self):
        return self.data


# ---------------------------------------------------------------------------- hex channel (abstract pair)
class SymHex:
    """hexlify(x): two hex digits per byte, kept abstract"""

    def __init__(self, payload):
        self.payload = payload

    def __add__(self, o):
        return SymHex(self.payload + o.payload)


class SymHexStr(str):
    def __new__(cls, payload):
        o = super().__new__(cls, "<symhex>")
        o.payload = payload
        return o

    def __len__(self):
        return 2 * len(self.payload)

    def __getitem__(self, s):
        if not isinstance(s, slice):
            raise Unsupported("single hex digit of a symbolic hex string")
        start, stop, step = s.indices(len(self))
        if step != 1 or start % 2 or stop % 2:
            raise Unsupported("odd cut through a symbolic hex string")
        return SymHexStr(self.payload[start // 2: stop // 2])


def hexlify_shim(x):
    from binascii import hexlify
    if isinstance(x, (SymBytes, SymArray)):
        return SymHex(as_symbytes(x))
    return hexlify(x)


def unhexlify_shim(x):
    from binascii import unhexlify
    if isinstance(x, SymHexStr):
        return x.payload
    return unhexlify(x)


class _StrMeta(type):
    def __instancecheck__(cls, x):
        return isinstance(x, builtins.str)

    def __call__(cls, *a, **k):
        if a and isinstance(a[0], SymHex):
            return SymHexStr(a[0].payload)
        return builtins.str(*a, **k)


class StrShim(metaclass=_StrMeta):
    pass


def is_hex_string_shim(real):
    def f(h):
        if isinstance(h, SymHexStr):
            return True
        return real(h)
    return f


# ---------------------------------------------------------------------------- struct.Struct
class SymStruct:
    """Model of struct.Struct(fmt) for integer fields (+ concrete 'f'); offsets from the real struct module."""

    def __init__(self, fmt):
        self.format = self.fmt = fmt
        self.real = _struct.Struct(fmt)
        self.size = self.real.size
        self.be = fmt[0] in ">!"
        native = fmt[0] not in "<>=!"
        codes = fmt.lstrip("<>=@!")
        self.fields, off = [], 0
        for c in codes:
            n = _struct.calcsize("=" + c)
            if native:
                off = (off + n - 1) // n * n
            self.fields.append((c, off, n))
            off += n
        if off > self.size:
            raise Unsupported(f"struct layout {fmt}")

    def pack(self, *vals):
        if len(vals) != len(self.fields):
            raise _struct.error(f"pack expected {len(self.fields)} items for packing (got {len(vals)})")
        chunks, pos = [], 0
        for (c, off, n), v in zip(self.fields, vals):
            if off > pos:
                chunks.append((0, off - pos, False))
            if c == "f":
                if hasattr(v, "pack_f32"):
                    chunks.append((v.pack_f32(), 4, self.be))
                else:
                    raw = _struct.pack((">" if self.be else "<") + "f", v)
                    chunks += [(b, 1, False) for b in raw]
            else:
                lo, hi = (0, (1 << (8 * n)) - 1) if c.isupper() else (-(1 << (8 * n - 1)), (1 << (8 * n - 1)) - 1)
                if isinstance(v, SInt):
                    if not (v.lo is not None and v.hi is not None and lo <= v.lo and v.hi <= hi):
                        if not engine.CUR.branch(z3.And(v.t >= lo, v.t <= hi)):
                            raise _struct.error("argument out of range")
                    if lo < 0:
                        v = v % (1 << (8 * n))
                elif not isinstance(v, (bool, int)):
                    raise _struct.error("required argument is not an integer")
                elif not lo <= v <= hi:
                    raise _struct.error("argument out of range")
                elif v < 0:
                    v += 1 << (8 * n)
                chunks.append((v, n, self.be))
            pos = off + n
        if self.size > pos:
            chunks.append((0, self.size - pos, False))
        return SymBytes(chunks)

    def pack_into(self, buf, offset, *vals):
        """Struct.pack_into on a memory map of the file model: one write effect at that offset (through the mapping)"""
        data = self.pack(*vals)
        if not hasattr(buf, "vf"):
            raise Unsupported("pack_into on " + type(buf).__name__)
        if getattr(buf, "readonly", False):
            raise TypeError("mmap can't modify a readonly memory map.")
        if isinstance(offset, SInt):
            raise Unsupported("pack_into at a symbolic offset")
        if offset < 0:
            offset += len(buf)
        if offset < 0 or offset + self.size > len(buf):
            raise _struct.error(f"pack_into requires a buffer of at least {offset + self.size} bytes")
        buf.vf.write_at(offset, data, "mmap-write")

    def unpack_from(self, d, offset=0):
        d = as_symbytes(d)
        if len(d) - offset < self.size:
            raise _struct.error(f"unpack_from requires a buffer of at least {self.size} bytes")
        d = d[offset:offset + self.size]
        out = []
        for c, off, n in self.fields:
            part = d[off:off + n]
            if c == "f":
                if len(part.chunks) == 1 and hasattr(part.chunks[0][0], "unpack_f32"):
                    out.append(part.chunks[0][0].unpack_f32())
                else:
                    out.append(_struct.unpack((">" if self.be else "<") + "f", part.concrete())[0])
            else:
                out.append(part.cells(n, self.be, signed=not c.isupper())[0])
        return tuple(out)

    def unpack(self, d):
        if len(as_symbytes(d)) != self.size:
            raise _struct.error(f"unpack requires a buffer of {self.size} bytes")
        return self.unpack_from(d)


def unpack_shim(fmt, data):
    """module-level struct.unpack(fmt, data)"""
    if isinstance(data, SymBytes):
        return SymStruct(fmt).unpack(data)
    return _struct.unpack(fmt, data)


# ---------------------------------------------------------------------------- random (cuckoo)
class SymRandom:
    """random.choice / random.randint: a fresh symbolic value per call (any resolution possible)"""

    def __init__(self, ctx):
        self.ctx, self.n = ctx, 0

    def choice(self, seq):
        self.n += 1
        i = self.ctx.int(f"rnd{self.n}:choice", 0, len(seq) - 1)
        return seq[self.ctx.conc(i)]

    def randint(self, a, b):
        self.n += 1
        return self.ctx.conc(self.ctx.int(f"rnd{self.n}:randint", a, b))


STUBS = {
    "array": "SymArray (concrete length, symbolic cells, OverflowError outside the typecode range, x86-64 item sizes)",
    "Struct": "SymStruct (integer fields as little/big-endian byte sums, offsets from the real struct module)",
    "bytes": "SymBytes via BytesShim/BytearrayShim (chunked cells; isinstance forwarded)",
    "int": "IntShim (identity on proxies)",
    "bin": "popcount over the bit view",
    "BytesIO": "SymFile (collects writes)",
    "hex": "hexlify/unhexlify/str as an abstract pair (2 digits per byte)",
    "random": "SymRandom (fresh symbolic value per call)",
}


# ---------------------------------------------------------------------------- opaque floats (statistics code paths)
class OpaqueFloat:
    """A float whose value is not modelled: arithmetic yields OpaqueFloat, comparisons are unsupported.  Lets statistics /
    formatting code run symbolically so that its EFFECTS on the structure (none expected) can be observed (C19)."""

    def _op(self, *a):
        return OpaqueFloat()
    __add__ = __radd__ = __sub__ = __rsub__ = __mul__ = __rmul__ = __truediv__ = __rtruediv__ = __pow__ = __rpow__ = __neg__ = __abs__ = _op

    def __float__(self):
        raise Unsupported("value of an opaque float")

    def _cmp(self, o):
        raise Unsupported("comparison of an opaque float")
    __lt__ = __le__ = __gt__ = __ge__ = _cmp

    def __format__(self, spec):
        return "?"

    def __repr__(self):
        return "<opaque float>"


def _opaque_ratio_ops():
    from .engine import SRatio

    def op(self, *a):
        return OpaqueFloat()
    for n in ("__add__", "__radd__", "__sub__", "__rsub__", "__mul__", "__rmul__", "__truediv__", "__rtruediv__", "__neg__"):
        setattr(SRatio, n, op)
    SRatio.__format__ = lambda self, spec: "?"


_opaque_ratio_ops()


class _FloatMeta(type):
    def __instancecheck__(cls, x):
        return isinstance(x, (builtins.float, OpaqueFloat))

    def __call__(cls, *a, **k):
        from .engine import SRatio
        if a and isinstance(a[0], (SInt, OpaqueFloat, SRatio)):
            return OpaqueFloat()
        return builtins.float(*a, **k)


class FloatShim(metaclass=_FloatMeta):
    pass


class MathStub:
    """math module whose transcendental functions accept opaque arguments"""

    def __getattr__(self, n):
        import math
        f = getattr(math, n)
        if not callable(f):
            return f

        def g(*a):
            from .engine import SRatio
            if any(isinstance(x, (OpaqueFloat, SInt, SRatio)) for x in a):
                return OpaqueFloat()
            return f(*a)
        return g


class _IntMeta2(_IntMeta):
    def __call__(cls, *a, **k):
        if a and isinstance(a[0], OpaqueFloat):
            n = next(engine._UNIQ)
            return engine.CUR.int(f"opaque_int{n}", -2 ** 63, 2 ** 63)
        return super().__call__(*a, **k)


class IntShimOpaque(metaclass=_IntMeta2):
    pass
