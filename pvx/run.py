"""Job pool, tiers, replay-before-report, known-finding matching, evidence writer, exit codes.

    python3-vt -m pvx.run C01 [--tier quick|thorough]

exit 0: every assertion proved (unsat) on every path of every job within the stated bounds
exit 1: a counterexample that replays on the real classes and is not a listed known finding
        (prints `VIOLATION property=<id> replay=<path>`)
exit 2: inconclusive (solver unknown, budget, unsupported operation, counterexample that does not replay,
        witness mismatch, unreached label) - never reported as a pass
"""
import argparse
import importlib
import json
import multiprocessing as mp
import os
import subprocess
import sys
import time

VERIF = os.path.dirname(os.path.dirname(os.path.abspath(__file__)))
sys.dont_write_bytecode = True

from . import env  # noqa: E402  (puts /repo on sys.path)
from .concrete import run_concrete  # noqa: E402


def load(prop):
    return importlib.import_module(f"pvx.harness.{prop.lower()}")


def _harness_fn(modname, hname, cfg):
    m = importlib.import_module(modname)
    fn = m.HARNESS[hname]
    return lambda ctx: fn(ctx, cfg)


def run_job(args):
    modname, job, seed = args
    from .engine import Engine
    hname, cfg, opts = job["h"], job.get("cfg", {}), job.get("opts", {})
    fn = _harness_fn(modname, hname, cfg)
    eng = Engine(timeout_ms=opts.get("timeout_ms", 60000), retry_ms=opts.get("retry_ms", 240000),
                 max_decisions=opts.get("max_decisions", 20000), seed=seed,
                 witness_cap=opts.get("witnesses", 2), index_concretize_limit=opts.get("index_concretize_limit", 0),
                 path_seconds=opts.get("path_seconds", 300))
    eng.cfg = cfg
    eng.assume_feasible = bool(opts.get("assume_feasible"))
    if os.environ.get("PVX_DUMP_DIR"):
        eng.dump_dir = os.environ["PVX_DUMP_DIR"]

    def witness(ins, ufs):
        r = run_concrete(fn, ins, ufs, cfg)
        ok = not r["failed"] and not r["assume_failed"] and not r["missing"]
        out = {"ok": ok, "failed": r["failed"], "missing": r["missing"][:5], "assume_failed": r["assume_failed"],
               "exception": r["exception"]}
        if r["failed"] and not r["assume_failed"] and not r["missing"]:
            out["inputs"], out["uf"] = ins, ufs       # a real failing execution: kept for the replay file
        return out
    t0 = time.time()
    try:
        eng.explore(fn, max_paths=opts.get("max_paths", 500000), max_seconds=opts.get("max_seconds", 600),
                    witness_fn=None if opts.get("no_witness") else witness)
        s = eng.summary()
    except BaseException as e:  # engine bug: inconclusive, never a pass
        import traceback
        s = {"crash": traceback.format_exc()[-1500:], "paths": 0, "completed": 0, "decisions": 0, "queries": 0, "unsat": 0,
             "sat": 0, "unknown_q": 0, "solver_s": 0, "reached": {}, "proved": {}, "violated": {}, "unknown": [],
             "violations": [], "unsupported": [repr(e)[:200]], "unsup_paths": [], "budget": [], "timeouts": [], "pending": 0, "timed_out": False, "slow": [],
             "witnesses": [], "samples": [], "functions": []}
    s["job"] = {"h": hname, "cfg": cfg}
    s["wall_s"] = round(time.time() - t0, 2)
    return s


def replay_file(prop, modname, hname, cfg, v, idx):
    d = os.path.join(VERIF, "replays", prop)
    os.makedirs(d, exist_ok=True)
    path = os.path.join(d, f"{hname.replace('.', '_')}-{idx}.json")
    with open(path, "w") as f:
        json.dump({"property": prop, "module": modname, "harness": hname, "cfg": cfg, "label": v["label"],
                   "inputs": v["inputs"], "uf": v["uf"], "exception": v.get("exception"),
                   "symbolic_label": v.get("symbolic_label")}, f, indent=1, sort_keys=True)
    return path


def load_known():
    p = os.path.join(VERIF, "known_findings.json")
    if not os.path.exists(p):
        return []
    return json.load(open(p)).get("findings", [])


def match_known(known, prop, hname, cfg, label):
    for k in known:
        if k.get("status", "open") != "open" or prop not in k.get("properties", [k["property"]]):
            continue
        if not any(hname == h or hname.startswith(h + ".") or hname.startswith(h) for h in k["harness"]):
            continue
        if not any(label == l or (l.endswith("*") and label.startswith(l[:-1])) for l in k["labels"]):
            continue
        if any(cfg.get(a) != b for a, b in k.get("cfg", {}).items()):
            continue
        return k
    return None


def main(argv=None):
    ap = argparse.ArgumentParser()
    ap.add_argument("prop")
    ap.add_argument("--tier", default=os.environ.get("VERIF_TIER", "quick"))
    ap.add_argument("--procs", type=int, default=int(os.environ.get("PVX_PROCS", "16")))
    ap.add_argument("--only", default=None, help="substring filter on harness names (debugging; evidence not written)")
    a = ap.parse_args(argv)
    prop, tier = a.prop.upper(), a.tier
    if tier not in ("quick", "thorough"):
        tier = "quick"
    try:
        seed = int(os.environ.get("VERIF_SEED", "0"))
    except ValueError:
        seed = 0
    mod = load(prop)
    modname = mod.__name__
    t0 = time.time()
    jobs = mod.jobs(tier)
    if a.only:
        jobs = [j for j in jobs if a.only in j["h"]]
    if seed:
        import random
        random.Random(seed).shuffle(jobs)
    jobs.sort(key=lambda j: -j.get("opts", {}).get("cost", 1))
    extra = getattr(mod, "pre_run", None)
    pre = extra(tier, seed) if extra else None
    results = []
    aborted = 0
    dump_dir = None
    if tier == "thorough" and getattr(mod, "CROSS_CHECK", False) and not a.only:
        import tempfile
        dump_dir = tempfile.mkdtemp(prefix="pvx-smt2-")
        os.environ["PVX_DUMP_DIR"] = dump_dir
    if jobs:
        ctxm = mp.get_context("fork")
        with ctxm.Pool(min(a.procs, len(jobs)), maxtasksperchild=40) as pool:
            stuck = 0
            for r in pool.imap_unordered(run_job, [(modname, j, seed) for j in jobs], chunksize=1):
                results.append(r)
                stuck += 1 if r.get("timeouts") else 0
                if stuck >= 6:      # several jobs hit the per-path time limit: enough to replay; do not spend an hour on the rest
                    pool.terminate()
                    aborted = len(jobs) - len(results)
                    break
                if os.environ.get("PVX_VERBOSE"):
                    print(f"  job {r['job']['h']} {r['job']['cfg']} paths={r['paths']} q={r['queries']} solver={r['solver_s']} wall={r['wall_s']} "
                          f"viol={list(r['violated'])} unk={len(r['unknown'])} unsup={r['unsupported'][:1]} slow={r['slow'][:2]}", flush=True)
    # ---- aggregate
    known = load_known()
    tot = {k: sum(r.get(k, 0) for r in results) for k in ("paths", "completed", "decisions", "queries", "unsat", "sat", "unknown_q")}
    solver_s = round(sum(r.get("solver_s", 0) for r in results), 2)
    reached, proved = {}, {}
    for r in results:
        for k, v in r["reached"].items():
            reached[k] = reached.get(k, 0) + v
        for k, v in r["proved"].items():
            proved[k] = proved.get(k, 0) + v
    inconclusive, violations_new, known_hit, replays = [], [], {}, 0
    if aborted:
        inconclusive.append(f"run cut short after 6 jobs ran into the per-path time limit: {aborted} jobs not executed")
    witnesses_ok = witnesses_bad = 0
    for r in results:
        jn = f"{r['job']['h']} {r['job']['cfg']}"
        if r.get("crash"):
            inconclusive.append(f"{jn}: engine crash {r['crash'][-300:]}")
        for u in r["unknown"]:
            if u[0] != "branch":
                inconclusive.append(f"{jn}: solver unknown at {u}")
        for u in r["unsupported"]:
            inconclusive.append(f"{jn}: unsupported: {u}")
        for up in r.get("unsup_paths", []):
            # Concolic fallback: the path left the modelled subset.  The solver's inputs for the path so far are run on the
            # real, unshimmed classes; if an assertion of the property fails there, that concrete execution is a violation in
            # its own right (it is reported with its replay file).  If nothing fails the job stays inconclusive (above).
            fnc = _harness_fn(modname, r["job"]["h"], r["job"]["cfg"])
            try:
                rr = run_concrete(fnc, up["inputs"], up["uf"], r["job"]["cfg"])
            except Exception:  # noqa: BLE001
                continue
            replays += 1
            # (a concrete assume() that fails ends the run, so every label in rr["failed"] failed BEFORE it: assumptions are not
            # retroactive, and the symbolic run checks those labels without them as well)
            if rr["failed"]:
                v = {"label": rr["failed"][0], "inputs": up["inputs"], "uf": up["uf"],
                     "symbolic_label": f"(symbolic path left the modelled subset: {up['why']}; fails on the real classes)"}
                k = match_known(known, prop, r["job"]["h"], r["job"]["cfg"], v["label"])
                if k is not None:
                    known_hit.setdefault(k["id"], k)
                elif sum(1 for x in violations_new if x["label"] == v["label"]) >= 3:
                    violations_new.append({"label": v["label"], "job": r["job"], "replay": None, "inputs": v["inputs"]})
                else:
                    path = replay_file(prop, modname, r["job"]["h"], r["job"]["cfg"], v, f"u{len(violations_new)}")
                    violations_new.append({"label": v["label"], "job": r["job"], "replay": path, "py312": "not run", "inputs": v["inputs"]})
        nonterm = False
        for tmo in r.get("timeouts", []):
            # a path that ran into the per-path time limit: replay its inputs on the real classes under a 30 s limit
            v = {"label": "terminates", "inputs": tmo["inputs"], "uf": tmo["uf"]}
            path = replay_file(prop, modname, r["job"]["h"], r["job"]["cfg"], v, f"t{len(violations_new)}")
            try:
                subprocess.run(["python3-vt", "-m", "pvx.replay", path], cwd=VERIF, capture_output=True, text=True, timeout=30)
                os.remove(path)
            except subprocess.TimeoutExpired:
                replays += 1
                nonterm = True
                if sum(1 for x in violations_new if x["label"] == "terminates") < 3:
                    violations_new.append({"label": "terminates", "job": r["job"], "replay": path, "py312": "not run", "inputs": tmo["inputs"]})
                break
        for u in r["budget"]:
            if not nonterm:
                inconclusive.append(f"{jn}: decision/time budget exceeded after {u} decisions")
        if r["timed_out"] or r["pending"]:
            inconclusive.append(f"{jn}: exploration incomplete (pending {r['pending']}, timed_out {r['timed_out']})")
        if not r["reached"] and not r["job"]["cfg"].get("may_be_empty"):
            inconclusive.append(f"{jn}: vacuous - no assertion reached")
        for w in r["witnesses"]:
            if w["ok"]:
                witnesses_ok += 1
            elif w.get("inputs") is not None:
                # The symbolic run proved the path, but the SAME inputs make an assertion of the property fail on the real,
                # unshimmed classes (a stub hid the behaviour - e.g. code reached only through the real file system).  A failing
                # concrete execution of the real code is a violation in its own right; it is reported with its replay file.
                witnesses_bad += 1
                v = {"label": w["failed"][0], "inputs": w["inputs"], "uf": w["uf"], "symbolic_label": "(proved symbolically; fails on the real classes)"}
                k = match_known(known, prop, r["job"]["h"], r["job"]["cfg"], v["label"])
                if k is not None:
                    known_hit.setdefault(k["id"], k)
                elif sum(1 for x in violations_new if x["label"] == v["label"]) >= 3:
                    violations_new.append({"label": v["label"], "job": r["job"], "replay": None, "inputs": v["inputs"]})
                else:
                    path = replay_file(prop, modname, r["job"]["h"], r["job"]["cfg"], v, f"w{len(violations_new)}")
                    violations_new.append({"label": v["label"], "job": r["job"], "replay": path, "py312": "not run", "inputs": v["inputs"]})
            else:
                witnesses_bad += 1
                inconclusive.append(f"{jn}: witness of a proved path does not replay on the real classes: {w}")
        for i, v in enumerate(r["violations"]):
            hname, cfg = r["job"]["h"], r["job"]["cfg"]
            fn = _harness_fn(modname, hname, cfg)
            rr = run_concrete(fn, v["inputs"], v["uf"], cfg)
            replays += 1
            confirmed = v["label"] in rr["failed"]
            if not confirmed and rr["failed"] and not rr["assume_failed"]:
                # the solver's input makes a DIFFERENT assertion of this property fail on the real classes (typically when the
                # symbolic run stopped at an exception of a proxy): that is a real violation at a concrete input - report it
                # under the label that fails concretely
                v = dict(v, label=rr["failed"][0], symbolic_label=v["label"])
                confirmed = True
            k = match_known(known, prop, hname, cfg, v["label"])
            if not confirmed:
                inconclusive.append(f"{jn}: counterexample for '{v['label']}' did not replay on the real classes "
                                    f"(failed={rr['failed']}, exc={rr['exception']}, missing={rr['missing'][:4]}) inputs={v['inputs']}")
                continue
            if k is not None:
                known_hit.setdefault(k["id"], k)
                continue
            if sum(1 for x in violations_new if x["label"] == v["label"]) >= 3:
                violations_new.append({"label": v["label"], "job": r["job"], "replay": None, "inputs": v["inputs"]})
                continue
            path = replay_file(prop, modname, hname, cfg, v, len(violations_new))
            try:  # also under the interpreter the baseline uses (3.12); informational
                p = subprocess.run(["/venv/bin/python", "-m", "pvx.replay", path], cwd=VERIF, capture_output=True, text=True, timeout=120)
                py312 = "confirmed" if p.returncode == 1 else f"exit {p.returncode}"
            except Exception as e:  # noqa: BLE001
                py312 = f"not run: {e!r}"
            violations_new.append({"label": v["label"], "job": r["job"], "replay": path, "py312": py312, "inputs": v["inputs"]})
    cross = None
    if dump_dir:
        import shutil
        cross, bad = cross_check(dump_dir)
        shutil.rmtree(dump_dir, ignore_errors=True)
        for b in bad:
            inconclusive.append("second solver disagrees: " + b)
        print(f"second-solver re-check of {cross['queries']} dumped assertion queries: {cross}")
    expect = getattr(mod, "EXPECT_LABELS", {}).get(tier, getattr(mod, "EXPECT_LABELS", {}).get("quick", [])) if not a.only else []
    for lab in expect:
        if not any(k == lab or k.startswith(lab) for k in reached):
            inconclusive.append(f"label '{lab}' never reached (vacuity guard)")
    if pre:
        inconclusive += pre.get("inconclusive", [])
        violations_new += pre.get("violations", [])
        for k in pre.get("known", []):
            known_hit.setdefault(k["id"], k)
    wall = round(time.time() - t0, 2)
    # ---- report
    for k in known_hit.values():
        print(f"KNOWN-FINDING: property={prop} {k['id']} {k['what']}")
    for v in violations_new:
        if v["replay"]:
            print(f"VIOLATION property={prop} replay={v['replay']}")
            print(f"  label={v['label']} job={v['job']} py3.12={v.get('py312')}")
    more = sum(1 for v in violations_new if not v["replay"])
    if more:
        print(f"  (+{more} further replayed counterexamples for the same labels, not written out)")
    for m in inconclusive[:20]:
        print("INCONCLUSIVE:", m[:600])
    n_assert = sum(reached.values())
    print(f"[{prop} {tier}] jobs={len(results)} paths={tot['paths']} decisions={tot['decisions']} queries={tot['queries']} "
          f"(unsat {tot['unsat']}, sat {tot['sat']}, unknown {tot['unknown_q']}) solver_s={solver_s} wall_s={wall} "
          f"assertions reached={n_assert} proved={sum(proved.values())} witnesses replayed ok={witnesses_ok} bad={witnesses_bad} "
          f"violations={len(violations_new)} known={len(known_hit)} inconclusive={len(inconclusive)}")
    for k in sorted(reached):
        if reached[k] != proved.get(k, 0):
            print(f"  label {k}: reached {reached[k]} proved {proved.get(k, 0)}")
    if not a.only and not os.environ.get("PVX_NO_EVIDENCE"):
        if cross:
            pre = dict(pre or {})
            pre.setdefault("coverage", {})["second_solver_recheck"] = cross
        write_evidence(mod, prop, tier, seed, results, tot, solver_s, wall, reached, proved, witnesses_ok, replays,
                       violations_new, known_hit, inconclusive, pre)
    if violations_new:
        return 1
    if inconclusive:
        return 2
    return 0


def cross_check(dump_dir, procs=16, timeout=60):
    """re-decide the dumped assertion queries with two other solver builds; returns (stats, disagreements)"""
    import concurrent.futures
    import glob
    files = sorted(glob.glob(os.path.join(dump_dir, "*.smt2")))

    def one(path):
        expect = open(path + ".expect").read().strip() if os.path.exists(path + ".expect") else "?"
        res = {}
        for name, cmd in (("z3-4.8.12", ["/usr/bin/z3", f"-T:{timeout}", path]), ("cvc5-1.0", ["cvc5", f"--tlimit={timeout * 1000}", path])):
            try:
                p = subprocess.run(cmd, capture_output=True, text=True, timeout=timeout + 10)
                out = (p.stdout + p.stderr).strip().splitlines()
                ans = next((ln.strip() for ln in out if ln.strip() in ("sat", "unsat", "unknown")), "error" if any("error" in ln for ln in out) else "timeout")
            except subprocess.TimeoutExpired:
                ans = "timeout"
            res[name] = ans
        return path, expect, res
    stats = {"queries": len(files), "z3-4.8.12": {}, "cvc5-1.0": {}}
    bad = []
    with concurrent.futures.ThreadPoolExecutor(procs) as ex:
        for path, expect, res in ex.map(one, files):
            for name, ans in res.items():
                key = "agree" if ans == expect else ("undecided" if ans in ("unknown", "timeout", "error") else "DISAGREE")
                stats[name][key] = stats[name].get(key, 0) + 1
                if key == "DISAGREE":
                    bad.append(f"{os.path.basename(path)}: z3-5.1 {expect}, {name} {ans}")
    return stats, bad


def write_evidence(mod, prop, tier, seed, results, tot, solver_s, wall, reached, proved, witnesses_ok, replays,
                   violations_new, known_hit, inconclusive, pre):
    functions = sorted({f for r in results for f in r.get("functions", [])} | set((pre or {}).get("functions", [])))
    samples = []
    for r in results:
        for s in r.get("samples", [])[:1]:
            if len(samples) < 6:
                samples.append({"harness": r["job"]["h"], "cfg": r["job"]["cfg"], "path_decisions": s["decisions"],
                                "model_inputs": s["inputs"], "labels_on_job": sorted(r["reached"])[:12]})
    samples += (pre or {}).get("samples", [])[:6]
    if not samples:
        samples = [{"harness": r["job"]["h"], "cfg": r["job"]["cfg"]} for r in results[:3]] or [{"note": "no jobs"}]
    level = getattr(mod, "LEVEL", "model_checking")
    bounds = getattr(mod, "BOUNDS", {})
    cov = {
        "samples": samples,
        "jobs": len(results),
        "job_list": [f"{r['job']['h']} {json.dumps(r['job']['cfg'], sort_keys=True)}" for r in results][:400],
        "functions_encoded": functions,
        "bounds": bounds.get(tier, ""),
        "outside_bounds": bounds.get("outside", ""),
        "queries": tot["queries"] + (pre or {}).get("queries", 0),
        "queries_unsat": tot["unsat"] + (pre or {}).get("unsat", 0),
        "queries_sat": tot["sat"] + (pre or {}).get("sat", 0),
        "queries_unknown": tot["unknown_q"] + (pre or {}).get("unknown", 0),
        "solver_s": round(solver_s + (pre or {}).get("solver_s", 0), 2),
        "labels": {k: {"reached": reached[k], "proved": proved.get(k, 0)} for k in sorted(reached)},
        "known_findings_matched": sorted(known_hit),
        "inconclusive": inconclusive[:30],
        "stubs": getattr(mod, "STUBS", []),
        "exhaustive": False,
    }
    if pre:
        cov.update(pre.get("coverage", {}))
    n_proved = sum(proved.values()) + (pre or {}).get("discharged", 0)
    n_oblig = sum(reached.values()) + (pre or {}).get("obligations", 0)
    if level == "proof":
        cov.update({"obligations": n_oblig, "discharged": n_proved,
                    "checker_cmd": f"python3-vt -m pvx.run {prop} --tier {tier}  (z3 {_z3v()} decides each obligation; unsat = discharged)",
                    "trusted_base": getattr(mod, "TRUSTED", ["z3", "pvx engine", "container stubs listed under 'stubs'"])})
    elif level == "translation_validation":
        cov.update({"programs": max(tot["completed"], 1), "disagreements_checked": n_oblig, "obligations": n_oblig, "discharged": n_proved,
                    "traces_validated_against_impl": witnesses_ok + replays,
                    "explanation": "programs = symbolic paths, each a class of (exported file, key) pairs for the reference reader or of (state, "
                                   "operation) histories for the reference writer; disagreements_checked = equivalence queries decided by z3"})
    else:
        cov.update({"states": max(tot["completed"], 0) + (pre or {}).get("states", 0),
                    "transitions": tot["decisions"] + (pre or {}).get("transitions", 0),
                    "traces_validated_against_impl": witnesses_ok + replays + (pre or {}).get("traces", 0),
                    "obligations": n_oblig, "discharged": n_proved,
                    "explanation": "states = symbolic paths explored to completion (each covers all inputs satisfying its path "
                                   "condition); transitions = branch decisions; traces = solver models replayed on the real classes"})
    ev = {"property_id": prop, "tier": tier, "seed": seed, "level": level, "coverage": cov,
          "assumptions": getattr(mod, "ASSUMPTIONS", []), "wall_s": wall, "violations": len(violations_new)}
    os.makedirs(os.path.join(VERIF, "evidence"), exist_ok=True)
    with open(os.path.join(VERIF, "evidence", f"{prop}.json"), "w") as f:
        json.dump(ev, f, indent=1, sort_keys=True, default=str)


def _z3v():
    try:
        import z3
        return z3.get_version_string()
    except Exception:  # noqa: BLE001
        return "?"


if __name__ == "__main__":
    sys.exit(main())
