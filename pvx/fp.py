"""IEEE-754 proxies for the floating-point kernels (C07, C14): SF = Python float (binary64), SI = Python int carried as a
signed 64-bit vector (range obligations are asserted by the harness)."""
import builtins
import math
import numbers

import z3

from . import engine

D, F32, RNE, W = z3.Float64(), z3.Float32(), z3.RNE(), 64


class SF:
    def __init__(self, t):
        self.t = t

    @staticmethod
    def lift(x):
        if isinstance(x, SF):
            return x.t
        if isinstance(x, SI):
            return z3.fpSignedToFP(RNE, x.t, D)
        if isinstance(x, (int, float)):
            return z3.FPVal(builtins.float(x), D)
        raise TypeError(type(x))

    def __add__(s, o): return SF(z3.fpAdd(RNE, s.t, SF.lift(o)))
    def __radd__(s, o): return SF(z3.fpAdd(RNE, SF.lift(o), s.t))
    def __sub__(s, o): return SF(z3.fpSub(RNE, s.t, SF.lift(o)))
    def __rsub__(s, o): return SF(z3.fpSub(RNE, SF.lift(o), s.t))
    def __mul__(s, o): return SF(z3.fpMul(RNE, s.t, SF.lift(o)))
    def __rmul__(s, o): return SF(z3.fpMul(RNE, SF.lift(o), s.t))
    def __truediv__(s, o): return SF(z3.fpDiv(RNE, s.t, SF.lift(o)))
    def __rtruediv__(s, o): return SF(z3.fpDiv(RNE, SF.lift(o), s.t))
    def __neg__(s): return SF(z3.fpNeg(s.t))
    def __le__(s, o): return engine.CUR.branch(z3.fpLEQ(s.t, SF.lift(o)))
    def __lt__(s, o): return engine.CUR.branch(z3.fpLT(s.t, SF.lift(o)))
    def __ge__(s, o): return engine.CUR.branch(z3.fpGEQ(s.t, SF.lift(o)))
    def __gt__(s, o): return engine.CUR.branch(z3.fpGT(s.t, SF.lift(o)))
    def __eq__(s, o): return engine.CUR.branch(z3.fpEQ(s.t, SF.lift(o)))
    __hash__ = None
    def __round__(s, nd=None):
        if nd is None:
            return SI(z3.fpToSBV(RNE, z3.fpRoundToIntegral(RNE, s.t), z3.BitVecSort(W)))
        if not isinstance(nd, int) or not 0 < nd <= 15:
            raise engine.Unsupported("round(float, ndigits) with ndigits outside 1..15")
        # decimal rounding has no counterpart in the FP theory: OVER-approximated by ANY binary64 within half a unit of the
        # last kept decimal (a hair more for the final binary rounding); every counterexample is replayed on the real round()
        r = z3.FreshConst(D, "round_nd")
        engine.CUR.solver.add(z3.fpLEQ(z3.fpAbs(z3.fpSub(RNE, r, s.t)), z3.FPVal(0.5 * 10.0 ** -nd * (1 + 2.0 ** -40), D)),
                              z3.Not(z3.fpIsNaN(r)), z3.Not(z3.fpIsInf(r)))
        return SF(r)
    def __ceil__(s): return SI(z3.fpToSBV(z3.RTP(), s.t, z3.BitVecSort(W)))
    def __trunc__(s): return SI(z3.fpToSBV(z3.RTZ(), s.t, z3.BitVecSort(W)))
    def __float__(s): raise engine.Unsupported("concrete value of a symbolic float")
    # struct 'f' narrowing (used by SymStruct / FStruct)
    def pack_f32(s): return F32Val(z3.fpToFP(RNE, s.t, F32))


class F32Val:
    """a binary32 value inside exported bytes"""
    def __init__(self, t):
        self.t = t

    def unpack_f32(self):
        return SF(z3.fpToFP(RNE, self.t, D))


class SI:
    """Python int as a signed 64-bit vector"""
    def __init__(self, t):
        self.t = t if not isinstance(t, int) else z3.BitVecVal(t, W)

    @staticmethod
    def lift(x):
        return x.t if isinstance(x, SI) else z3.BitVecVal(int(x), W)

    def __neg__(s): return SI(-s.t)
    def __add__(s, o): return SI(s.t + SI.lift(o)) if isinstance(o, (int, SI)) else NotImplemented
    __radd__ = __add__
    def __sub__(s, o): return SI(s.t - SI.lift(o)) if isinstance(o, (int, SI)) else NotImplemented
    def __rsub__(s, o): return SI(SI.lift(o) - s.t)

    def __mul__(s, o):
        if isinstance(o, (SF, float)):
            return SF(z3.fpMul(RNE, SF.lift(s), SF.lift(o)))
        return SI(s.t * SI.lift(o))

    def __rmul__(s, o):
        if isinstance(o, (SF, float)):
            return SF(z3.fpMul(RNE, SF.lift(o), SF.lift(s)))
        return SI(SI.lift(o) * s.t)

    def __lshift__(s, o): return SI(s.t << SI.lift(o))
    def __rlshift__(s, o): return SI(SI.lift(o) << s.t)
    def __rshift__(s, o): return SI(s.t >> SI.lift(o))
    def __and__(s, o): return SI(s.t & SI.lift(o))
    __rand__ = __and__
    def __floordiv__(s, o): return SI(z3.If(s.t >= 0, z3.UDiv(s.t, SI.lift(o)), -z3.UDiv(-s.t + SI.lift(o) - 1, SI.lift(o)))) if isinstance(o, int) and o > 0 else NotImplemented
    def __truediv__(s, o): return SF(z3.fpDiv(RNE, SF.lift(s), SF.lift(o)))     # exact for |values| < 2^53 (asserted by the harness)
    def __rtruediv__(s, o): return SF(z3.fpDiv(RNE, SF.lift(o), SF.lift(s)))
    def __gt__(s, o): return engine.CUR.branch(s.t > SI.lift(o))
    def __ge__(s, o): return engine.CUR.branch(s.t >= SI.lift(o))
    def __lt__(s, o): return engine.CUR.branch(s.t < SI.lift(o))
    def __le__(s, o): return engine.CUR.branch(s.t <= SI.lift(o))
    def __eq__(s, o): return engine.CUR.branch(s.t == SI.lift(o)) if isinstance(o, (int, SI)) else False
    def __ne__(s, o): return engine.CUR.branch(s.t != SI.lift(o)) if isinstance(o, (int, SI)) else True
    __hash__ = None


numbers.Number.register(SF)
numbers.Number.register(SI)


class _FM(type):
    def __instancecheck__(cls, x):
        return isinstance(x, (builtins.float, SF))

    def __call__(cls, x=0.0):
        if isinstance(x, SF):
            return x
        if isinstance(x, SI):
            return SF(SF.lift(x))
        return builtins.float(x)


class FloatShim(metaclass=_FM):
    pass


class _IM(type):
    def __instancecheck__(cls, x):
        return isinstance(x, (builtins.int, SI))

    def __call__(cls, x=0, *a):
        if isinstance(x, SI):
            return x
        if isinstance(x, SF):
            return x.__trunc__()
        return builtins.int(x, *a)


class IntShim(metaclass=_IM):
    pass


class FStruct:
    """Struct('f'): binary32 narrowing and widening"""
    size = 4
    format = "f"

    def pack(self, v):
        import struct
        return ("f32", z3.fpToFP(RNE, SF.lift(v), F32)) if isinstance(v, SF) else struct.pack("f", v)

    def unpack(self, b):
        import struct
        return (SF(z3.fpToFP(RNE, b[1], D)),) if isinstance(b, tuple) else struct.unpack("f", b)


LOG = z3.Function("LOG", D, D)
EXP = z3.Function("EXP", D, D)
POW = z3.Function("POW", D, D, D)
LOG2 = z3.Function("LOG2", D, D)


class MathUF:
    """math module with the transcendental functions uninterpreted (pure functions of their arguments; NOTHING else assumed)"""

    def log(self, x):
        return SF(LOG(SF.lift(x))) if isinstance(x, (SF, SI)) else math.log(x)

    def exp(self, x):
        return SF(EXP(SF.lift(x))) if isinstance(x, (SF, SI)) else math.exp(x)

    def log2(self, x):
        return SF(LOG2(SF.lift(x))) if isinstance(x, (SF, SI)) else math.log2(x)

    def pow(self, x, y):
        if isinstance(x, (SF, SI)) or isinstance(y, (SF, SI)):
            return SF(POW(SF.lift(x), SF.lift(y)))
        return math.pow(x, y)

    def ceil(self, x):
        return x.__ceil__() if isinstance(x, SF) else math.ceil(x)

    def frexp(self, x):
        """(m, e) with x = m * 2^e, 0.5 <= |m| < 1 - exact bit surgery on a normal binary64 (zero / inf / nan pass through)"""
        if not isinstance(x, SF):
            return math.frexp(x)
        cur, t = engine.CUR, x.t
        if cur.branch(z3.Or(z3.fpIsZero(t), z3.fpIsInf(t), z3.fpIsNaN(t))):
            return x, 0
        if cur.branch(z3.fpIsSubnormal(t)):
            raise engine.Unsupported("frexp of a subnormal binary64")
        bv = z3.fpToIEEEBV(t)
        m = z3.fpFP(z3.Extract(63, 63, bv), z3.BitVecVal(1022, 11), z3.Extract(51, 0, bv))
        return SF(m), SI(z3.ZeroExt(53, z3.Extract(62, 52, bv)) - 1022)

    def ldexp(self, m, e):
        """m * 2^e, rounded once (exact unless the result is subnormal) - for exponents whose power of two is a normal binary64"""
        if not isinstance(m, (SF, SI)) and not isinstance(e, SI):
            return math.ldexp(m, e)
        et = SI.lift(e)
        if not engine.CUR.branch(z3.And(et >= -1022, et <= 1023)):
            raise engine.Unsupported("ldexp with an exponent outside the normal range")
        p2 = z3.fpFP(z3.BitVecVal(0, 1), z3.Extract(10, 0, et + 1023), z3.BitVecVal(0, 52))
        return SF(z3.fpMul(RNE, SF.lift(m), p2))

    def __getattr__(self, n):
        return getattr(math, n)
