"""C19 - queries never change a structure; clear() returns it to its initial state.  State-level: whole state symbolic,
every read-only call runs with symbolic arguments, the state is compared term by term before and after."""
import io
import itertools

from .. import env
from .c01 import sym_bloom, hv
from .c12 import FIXED
from . import c04, c11, c12, c13, c16

PROPERTY = "C19"
CROSS_CHECK = True      # thorough: dumped assertion queries are re-decided by z3 4.8.12 and cvc5 1.0
LEVEL = "model_checking"
STUBS = ["array/bytes/Struct/BytesIO shadows", "float/math in the Bloom modules -> opaque floats (statistics run, their values are not modelled)",
         "cuckoo: see C03; on-disk Bloom: the stubs of C11 (c11.queries, c11.clear, c11.export are re-run here); set operations: the stubs of C04, C12, C13, C16"]
ASSUMPTIONS = [
    "state = every cell, counter and table entry, compared term by term (and the exported bytes) before and after the read-only calls",
    "read-only calls per structure: check / check_alt / in / hashes / export / export_hex / __bytes__ / str / estimate_elements / current_false_positive_rate / export_size / load_factor / get_hashes / print / validate_metadata and property getters; the non-receiver side of union / intersection / jaccard / join / merge is asserted in C12, C13, C16 and C04",
    "clear() is compared with a freshly constructed object of the same parameters (cells, counters, tables, exported bytes)",
    "export_c_header writes a text file (formatting of concrete data): not exercised symbolically",
]
BOUNDS = {
    "quick": "Bloom 2, 8, 11, 13, 16 bits; counting Bloom 2, 3 cells; expanding/rotating 2 sub-filters; count-min family 2x2, 3x2 incl. HeavyHitters/StreamThreshold tables; cuckoo / counting cuckoo 2x1, 2x2 every occupancy; quotient filter with 0..3 stored hashes (8^n quotient choices)",
    "thorough": "adds Bloom 63 bits, counting Bloom 6 cells, count-min 3x3",
    "outside": "larger geometries; export_c_header",
}
EXPECT_LABELS = {"quick": ["bloom-queries-unchanged", "bloom-clear-is-fresh", "cbf-queries-unchanged", "cbf-clear-is-fresh", "exp-queries-unchanged",
                           "cms-queries-unchanged", "cms-clear-is-fresh", "cuckoo-queries-unchanged", "qf-queries-unchanged", "tables-cleared", "operands-unchanged", "merge-leaves-second", "cbf-merge-operands-unchanged"]}


def _same(ctx, a, b):
    return ctx.all_eq(a, b)


def bloom(ctx, cfg):
    env.setup(ctx, "bloom", "countingbloom")
    from probables import BloomFilter, CountingBloomFilter
    counting = cfg["kind"] == "cbf"
    tag = "cbf" if counting else "bloom"
    if counting:
        f = CountingBloomFilter(cfg["est"], cfg["fpr"], hash_function=FIXED)
        for j in range(f.number_bits):
            f._bloom[j] = ctx.int(f"cell{j}", 0, 2 ** 32 - 1)
        f.elements_added = ctx.int("added", 0, 2 ** 64 - 1)
    else:
        f = sym_bloom(ctx, cfg["est"], cfg["fpr"], hash_function=FIXED)
    k, m = f.number_hashes, f.number_bits
    pre, cnt, blob = env.cells(f._bloom), f.elements_added, env.export_bytes(ctx, f)
    q = hv(ctx, "q", k, m)
    env.opaque_stats(ctx)
    f.check_alt(q), f.check("key"), ("key" in f), f.hashes("key"), f.hashes("key", 1), f.export_size(), f.export_hex(), f.__bytes__()
    f.estimate_elements(), f.current_false_positive_rate()
    if cfg.get("str"):
        str(f)
    (f.false_positive_rate, f.estimated_elements, f.number_hashes, f.number_bits, f.is_on_disk, f.bloom_length, f.bloom, f.hash_function)
    ctx.check(ctx.and_(_same(ctx, pre, env.cells(f._bloom)), ctx.eq(cnt, f.elements_added)), tag + "-queries-unchanged")
    ctx.check(env.blob_eq(ctx, blob, env.export_bytes(ctx, f)), tag + "-queries-export-unchanged")
    f.clear()
    fresh = type(f)(cfg["est"], cfg["fpr"], hash_function=FIXED)
    ctx.check(ctx.and_(_same(ctx, env.cells(f._bloom), env.cells(fresh._bloom)), ctx.eq(f.elements_added, 0)), tag + "-clear-is-fresh")
    ctx.check(env.blob_eq(ctx, env.export_bytes(ctx, f), env.export_bytes(ctx, fresh)), tag + "-clear-is-fresh")
    ctx.check(f.check_alt(q) == (0 if counting else False), tag + "-clear-forgets")


def expanding(ctx, cfg):
    env.setup(ctx, "bloom", "expanding")
    from probables import ExpandingBloomFilter, RotatingBloomFilter, BloomFilter
    from .c09 import sym_state, bits
    rot = cfg["kind"] == "rot"
    est, L = cfg["est"], cfg["L"]
    f = RotatingBloomFilter(est, 0.5, max_queue_size=3, hash_function=FIXED) if rot else ExpandingBloomFilter(est, 0.5, hash_function=FIXED)
    cnt = sym_state(ctx, f, L, est, BloomFilter)
    f._added_elements = ctx.int("added", 0, 2 ** 64 - 1)
    pre_bits, pre_cnt, tot, blob = bits(ctx, f), [b.elements_added for b in f._blooms], f.elements_added, env.export_bytes(ctx, f)
    k, m = f._blooms[0].number_hashes, f._blooms[0].number_bits
    q = hv(ctx, "q", k, m)
    f.check_alt(q), f.check("key"), ("key" in f), f.__bytes__()
    (f.expansions, f.false_positive_rate, f.estimated_elements, f.elements_added, f.hash_function)
    if rot:
        (f.max_queue_size, f.current_queue_size)
    ctx.check(len(f._blooms) == L and ctx.fork(ctx.and_([ctx.iff(x, y) for x, y in zip(pre_bits, bits(ctx, f))] +
                                                          [ctx.eq(x, b.elements_added) for x, b in zip(pre_cnt, f._blooms)] + [ctx.eq(tot, f.elements_added)])),
              "exp-queries-unchanged")
    ctx.check(env.blob_eq(ctx, blob, env.export_bytes(ctx, f)), "exp-queries-export-unchanged")


def cms(ctx, cfg):
    env.setup(ctx, "cms")
    import probables
    w, d, kind = cfg["w"], cfg["d"], cfg["kind"]
    cls = getattr(probables, kind)
    kw = {"num_hitters": 2} if kind == "HeavyHitters" else {"threshold": 5} if kind == "StreamThreshold" else {}
    f = cls(width=w, depth=d, hash_function=FIXED, **kw)
    for j in range(w * d):
        f._bins[j] = ctx.int(f"cell{j}", -2 ** 31, 2 ** 31 - 1)
    f._CountMinSketch__elements_added = ctx.int("total", -2 ** 63, 2 ** 63 - 1)
    table = None
    if kind == "HeavyHitters":
        f._HeavyHitters__top_x.update({"a": ctx.int("ta", 0, 100), "b": ctx.int("tb", 0, 100)})
        f._HeavyHitters__top_x_size = 2
        f._HeavyHitters__smallest = ctx.int("smallest", 0, 100)       # the cached eviction threshold after earlier evictions
        table = dict(f.heavy_hitters)
    if kind == "StreamThreshold":
        f._StreamThreshold__meets_threshold.update({"a": ctx.int("ta", 5, 100)})
        table = dict(f.meets_threshold)
    pre, tot, blob = env.cells(f._bins), f.elements_added, env.export_bytes(ctx, f)
    q = [ctx.hashval(f"q{i}", w) for i in range(d)]
    f.check_alt(q), f.check("key"), ("key" in f), f.hashes("key"), f.hashes("key", 1), f.__bytes__(), str(f)
    (f.width, f.depth, f.confidence, f.error_rate, f.elements_added, f.query_type)
    ctx.check(ctx.and_(_same(ctx, pre, env.cells(f._bins)), ctx.eq(tot, f.elements_added)), "cms-queries-unchanged")
    ctx.check(env.blob_eq(ctx, blob, env.export_bytes(ctx, f)), "cms-queries-export-unchanged")
    if table is not None:
        now = f.heavy_hitters if kind == "HeavyHitters" else f.meets_threshold
        ctx.check(list(now) == list(table) and ctx.fork(ctx.and_([ctx.eq(now[x], table[x]) for x in table])), "tables-unchanged")
    f.clear()
    fresh = cls(width=w, depth=d, hash_function=FIXED, **kw)
    ctx.check(ctx.and_(_same(ctx, env.cells(f._bins), env.cells(fresh._bins)), ctx.eq(f.elements_added, 0)), "cms-clear-is-fresh")
    ctx.check(env.blob_eq(ctx, env.export_bytes(ctx, f), env.export_bytes(ctx, fresh)), "cms-clear-is-fresh")
    ctx.check(f.query_type == fresh.query_type, "clear-keeps-query-type")
    if kind == "HeavyHitters":
        ctx.check(f.heavy_hitters == {} and f._HeavyHitters__top_x_size == 0 and f._HeavyHitters__smallest == 0, "tables-cleared")
    if kind == "StreamThreshold":
        ctx.check(f.meets_threshold == {}, "tables-cleared")
    # behaviour after clear(): the same three adds on the cleared and on the fresh object give the same answers and tables
    if kind in ("HeavyHitters", "StreamThreshold"):
        n1, n2, n3 = ctx.int("n1", 1, 50), ctx.int("n2", 1, 50), ctx.int("n3", 1, 50)
        outs = []
        for o in (f, fresh):
            outs.append([o.add("k1", n1), o.add("k2", n2), o.add("k3", n3)])
        ta, tb = (f.heavy_hitters, fresh.heavy_hitters) if kind == "HeavyHitters" else (f.meets_threshold, fresh.meets_threshold)
        ctx.check(ctx.and_([ctx.eq(x, y) for x, y in zip(*outs)]), "cleared-behaves-like-fresh")
        ctx.check(sorted(ta) == sorted(tb) and ctx.fork(ctx.and_([ctx.eq(ta[k], tb[k]) for k in ta])), "cleared-behaves-like-fresh")


def cuckoo(ctx, cfg):
    from . import c03
    t = c03.build(ctx, cfg)
    f = t.f
    if cfg.get("loaded"):       # the same table after export -> frombytes (the loader stores buckets differently)
        f = type(f).frombytes(env.export_bytes(ctx, f), hash_function=t.hf)
        t.f = f
    before, tot, blob = c03.stored(t), f.elements_added, env.export_bytes(ctx, f)
    c03.new_key(t)
    f.check("new"), ("new" in f), f.__bytes__(), f.load_factor(), str(f)
    if t.keys:
        f.check(t.keys[0][0])
    (f.elements_added, f.capacity, f.max_swaps, f.bucket_size, f.buckets, f.expansion_rate, f.error_rate, f.auto_expand, f.fingerprint_size_bits, f.fingerprint_size)
    after = c03.stored(t)
    ctx.check(len(before) == len(after) and ctx.fork(ctx.and_([ctx.and_(x[0] == y[0], ctx.eq(x[1], y[1]), ctx.eq(x[2], y[2])) for x, y in zip(before, after)] +
                                                               [ctx.eq(tot, f.elements_added)])), "cuckoo-queries-unchanged")
    ctx.check(env.blob_eq(ctx, blob, env.export_bytes(ctx, f)), "cuckoo-queries-export-unchanged")
    ctx.check(all(len(b) <= f.bucket_size for b in f.buckets), "cuckoo-queries-unchanged")


def qf(ctx, cfg):
    env.setup(ctx, "qf", "utilities")
    from probables import QuotientFilter
    from .c04 import _hash
    f = QuotientFilter(quotient=3, auto_expand=bool(cfg.get("auto")), hash_function=lambda key, seed=0: 12345)
    if cfg.get("auto"):
        f.max_load_factor = 0.25        # the filter rests at / above its growth threshold: a query must still not grow it
    model = []
    for i, q in enumerate(cfg["qs"]):
        x = _hash(ctx, f"r{i}", q)
        f.add_alt(x)
        model.append(x)

    def snap():
        return (env.cells(f._filter) + env.cells(f._is_occupied.bitarray) + env.cells(f._is_continuation.bitarray) +
                env.cells(f._is_shifted.bitarray) + [f.elements_added, f.quotient])
    pre = snap()
    p = _hash(ctx, "probe", cfg["pq"])
    f.check_alt(p), f.check("key"), ("key" in f), f.get_hashes(), list(f.hashes()), f.load_factor, f.validate_metadata()
    f.print(file=io.StringIO())
    (f.quotient, f.remainder, f.num_elements, f.elements_added, f.bits_per_elm, f.size, f.auto_expand, f.max_load_factor)
    ctx.check(_same(ctx, pre, snap()), "qf-queries-unchanged")


HARNESS = {"c19.bloom": bloom, "c19.expanding": expanding, "c19.cms": cms, "c19.cuckoo": cuckoo, "c19.qf": qf}
for _m in (c04, c11, c12, c13, c16):      # the non-receiver side of set operations: the operand-unchanged clauses of the neighbouring modules
    for _k, _v in _m.HARNESS.items():
        HARNESS.setdefault(_k, _v)


def jobs(tier):
    js = []
    o = {"witnesses": 1}
    oc = {"index_concretize_limit": 8, "witnesses": 1}
    for est, fpr in [(1, .5), (3, .28), (3, .2), (5, .3), (5, .22)] + ([(10, .05)] if tier == "thorough" else []):
        js.append({"h": "c19.bloom", "cfg": {"kind": "bloom", "est": est, "fpr": fpr, "str": est == 1}, "opts": dict(o, cost=est)})
    for est, fpr in [(1, .5), (1, .3)] + ([(2, .3)] if tier == "thorough" else []):
        js.append({"h": "c19.bloom", "cfg": {"kind": "cbf", "est": est, "fpr": fpr, "str": est == 1 and fpr == .5}, "opts": dict(o, cost=est * 5)})
    for kind in ("exp", "rot"):
        for L in (1, 2):
            js.append({"h": "c19.expanding", "cfg": {"kind": kind, "est": 2, "L": L}, "opts": dict(o)})
    for kind in ("CountMinSketch", "CountMeanSketch", "CountMeanMinSketch", "HeavyHitters", "StreamThreshold"):
        for w, d in [(2, 2), (3, 2)] + ([(3, 3)] if tier == "thorough" else []):
            js.append({"h": "c19.cms", "cfg": {"kind": kind, "w": w, "d": d}, "opts": dict(o, cost=w * d)})
    for counting in (False, True):
        for cap, bsz in [(2, 1), (2, 2)]:
            for occ in itertools.product(range(bsz + 1), repeat=cap):
                for loaded in (False, True):
                    js.append({"h": "c19.cuckoo", "cfg": {"cap": cap, "bsz": bsz, "swaps": 2, "auto": True, "occ": list(occ), "counting": counting,
                                                           "loaded": loaded}, "opts": dict(oc, cost=cap * bsz)})
    for n in (0, 1, 2, 3):
        for qs in itertools.product(range(8), repeat=n):
            if n == 3 and not (qs[0] <= qs[1] <= qs[2]):
                continue
            js.append({"h": "c19.qf", "cfg": {"qs": list(qs), "pq": qs[0] if qs else 0}, "opts": dict(o, cost=n + 1)})
            if n == 2:
                js.append({"h": "c19.qf", "cfg": {"qs": list(qs), "pq": qs[0], "auto": True}, "opts": dict(o, cost=n + 1)})
    # set operations leave their operands (receiver included, where a new object is returned) unchanged
    js += [j for j in c12.jobs(tier) if j["h"] in ("c12.bloom_union", "c12.cbf_union", "c12.cms_join") and j["opts"].get("cost", 1) <= 40]
    js += [j for j in c13.jobs(tier) if j["h"] == "c13.bloom" and j["cfg"]["est"] <= 3 or j["h"] == "c13.cbf" and j["cfg"] == {"est": 1, "fpr": .5}]
    js += [j for j in c16.jobs(tier) if j["h"] == "c16.cbf_merge" and j["cfg"]["est"] == 1]
    js += [j for j in c04.jobs("quick") if j["h"] == "c04.merge"]
    # on-disk Bloom filter: queries leave the file alone, clear() makes file and object those of a fresh filter
    js += [j for j in c11.jobs(tier) if j["h"] in ("c11.queries", "c11.clear", "c11.export")]
    return js
