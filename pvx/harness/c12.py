"""C12 - union and join equal the structure built from both streams.  State-level: both operands entirely symbolic."""
from .. import env
from .c01 import sym_bloom, bits_of, hv

PROPERTY = "C12"
CROSS_CHECK = True      # thorough: dumped assertion queries are re-decided by z3 4.8.12 and cvc5 1.0
LEVEL = "model_checking"
STUBS = ["array -> SymArray", "BloomFilter.estimate_elements -> 0 in symbolic mode (its formula is C14's subject; it needs math.log of a symbolic popcount)",
         "hash_function -> fixed concrete strategy (the similarity check probes the key 'test')"]
ASSUMPTIONS = [
    "Bloom union: both bit arrays arbitrary; together with C01 'bits-exact' (an add ORs exactly its masks into the array) bytewise OR is the array of one filter fed both streams",
    "counting-Bloom union / count-min join: both operands under their multiset invariants over the SAME K keys (same hash function) with independent true counts; cells and totals far below the limits (saturation is C16)",
    "on-disk operands: covered in c11 (the VFS model) for _get_element; here both operands are in memory",
]
BOUNDS = {
    "quick": "Bloom geometries 1, 2, 3, 6, 7, 8, 11, 13, 16 bits and (10,.05)->63/4; counting Bloom 2/1, 3/2, 6/2 cells with K = 2; count-min 1x1, 2x2, 3x2 with K = 2",
    "thorough": "adds counting Bloom 11/3 and count-min 3x3 with K = 3",
    "outside": "larger geometries; saturated cells (C16)",
}
EXPECT_LABELS = {"quick": ["bloom-union-is-or", "bloom-union-reports-every-key", "operands-unchanged", "cbf-union-is-single-stream",
                           "cbf-union-est>=sum", "cms-join-is-single-stream", "cms-join-est>=sum", "cms-join-total", "cbf-union-keeps-strategy"]}
FIXED = lambda key, depth=1: [3, 5, 7, 11, 13, 17, 19, 23, 29, 31][:depth]  # noqa: E731


def stub_estimate(ctx):
    if ctx.sym:
        ctx.patch(env.mod("bloom").BloomFilter, "estimate_elements", lambda self: 0)


def bloom_union(ctx, cfg):
    env.setup(ctx, "bloom")
    a = sym_bloom(ctx, cfg["est"], cfg["fpr"], "a.", FIXED)
    b = sym_bloom(ctx, cfg["est"], cfg["fpr"], "b.", FIXED)
    k, m = a.number_hashes, a.number_bits
    pa, pb, ca, cb = bits_of(ctx, a), bits_of(ctx, b), a.elements_added, b.elements_added
    key = hv(ctx, "key", k, m)
    in_a, in_b = a.check_alt(key), b.check_alt(key)
    stub_estimate(ctx)
    u = a.union(b)
    ctx.check(u is not None and u is not a and u is not b, "bloom-union-new-object")
    ctx.check(u.number_bits == m and u.number_hashes == k and u.bloom_length == a.bloom_length, "bloom-union-geometry")
    ctx.check(ctx.and_([ctx.iff(r, ctx.or_(x, y)) for r, x, y in zip(bits_of(ctx, u), pa, pb)]), "bloom-union-is-or")
    if in_a or in_b:
        ctx.check(u.check_alt(key) is True, "bloom-union-reports-every-key")
    ctx.check(u.hashes("some key") == a.hashes("some key") and u.check("some key") is u.check_alt(a.hashes("some key")), "bloom-union-keeps-strategy")
    ctx.check(ctx.and_([ctx.iff(x, y) for x, y in zip(pa + pb, bits_of(ctx, a) + bits_of(ctx, b))] +
                       [ctx.eq(ca, a.elements_added), ctx.eq(cb, b.elements_added)]), "operands-unchanged")


def _inv_cbf(ctx, c, H, Tc):
    m = c.number_bits
    for col in range(m):
        c._bloom[col] = ctx.sum([ctx.ite(ctx.eq(h % m, col), Tc[q], 0) for q in range(len(Tc)) for h in H[q]])
    c.elements_added = ctx.sum(Tc)


def cbf_union(ctx, cfg):
    env.setup(ctx, "bloom", "countingbloom")
    from probables import CountingBloomFilter
    K = cfg["K"]
    a = CountingBloomFilter(cfg["est"], cfg["fpr"], hash_function=FIXED)
    b = CountingBloomFilter(cfg["est"], cfg["fpr"], hash_function=FIXED)
    m, k = a.number_bits, a.number_hashes
    H = [[ctx.hashval(f"h{q}_{i}", m) for i in range(k)] for q in range(K)]
    TA = [ctx.int(f"ta{q}", 0, 2 ** 20) for q in range(K)]
    TB = [ctx.int(f"tb{q}", 0, 2 ** 20) for q in range(K)]
    _inv_cbf(ctx, a, H, TA)
    _inv_cbf(ctx, b, H, TB)
    pa, pb = env.cells(a._bloom), env.cells(b._bloom)
    stub_estimate(ctx)
    u = a.union(b)
    ctx.check(u is not None and u is not a and u is not b and u.number_bits == m, "cbf-union-new-object")
    single = CountingBloomFilter(cfg["est"], cfg["fpr"], hash_function=FIXED)
    _inv_cbf(ctx, single, H, [x + y for x, y in zip(TA, TB)])
    ctx.check(ctx.all_eq(env.cells(u._bloom), env.cells(single._bloom)), "cbf-union-is-single-stream")
    ctx.check(ctx.and_([ctx.ge(u.check_alt(H[q]), TA[q] + TB[q]) for q in range(K)]), "cbf-union-est>=sum")
    # the result hashes keys with the operands' strategy (round 5: a result rebuilt through frombytes() fell back to the default)
    ctx.check(u.hashes("some key") == a.hashes("some key") and u.hashes("other", 1) == a.hashes("other", 1), "cbf-union-keeps-strategy")
    ctx.check(ctx.and_(ctx.all_eq(pa, env.cells(a._bloom)), ctx.all_eq(pb, env.cells(b._bloom))), "operands-unchanged")


def _inv_cms(ctx, c, H, Tc, w, d):
    for i in range(d):
        for col in range(w):
            c._bins[i * w + col] = ctx.sum([ctx.ite(ctx.eq(H[q][i] % w, col), Tc[q], 0) for q in range(len(Tc))])
    c._CountMinSketch__elements_added = ctx.sum(Tc)


def cms_join(ctx, cfg):
    env.setup(ctx, "cms")
    from probables import CountMinSketch
    w, d, K = cfg["w"], cfg["d"], cfg["K"]
    a, b = CountMinSketch(width=w, depth=d, hash_function=FIXED), CountMinSketch(width=w, depth=d, hash_function=FIXED)
    H = [[ctx.hashval(f"h{q}_{i}", w) for i in range(d)] for q in range(K)]
    TA = [ctx.int(f"ta{q}", 0, 2 ** 20) for q in range(K)]
    TB = [ctx.int(f"tb{q}", 0, 2 ** 20) for q in range(K)]
    _inv_cms(ctx, a, H, TA, w, d)
    _inv_cms(ctx, b, H, TB, w, d)
    pb, tb = env.cells(b._bins), b.elements_added
    r = a.join(b)
    ctx.check(r is None, "cms-join-returns-none")
    single = CountMinSketch(width=w, depth=d, hash_function=FIXED)
    TS = [x + y for x, y in zip(TA, TB)]
    _inv_cms(ctx, single, H, TS, w, d)
    ctx.check(ctx.all_eq(env.cells(a._bins), env.cells(single._bins)), "cms-join-is-single-stream")
    ctx.check(ctx.eq(a.elements_added, ctx.sum(TS)), "cms-join-total")
    ctx.check(ctx.and_([ctx.and_(ctx.ge(a.check_alt(H[q]), TS[q]), ctx.le(a.check_alt(H[q]), a.elements_added)) for q in range(K)]), "cms-join-est>=sum")
    ctx.check(ctx.and_(ctx.all_eq(pb, env.cells(b._bins)), ctx.eq(tb, b.elements_added)), "operands-unchanged")


def cbf_union_raw(ctx, cfg):
    """counting-Bloom union on arbitrary (unsaturated) counters and arbitrary element totals, e.g. results of earlier unions whose
    total is an ESTIMATE (possibly 0 with non-zero counters): cellwise sum"""
    env.setup(ctx, "bloom", "countingbloom")
    from probables import CountingBloomFilter
    a = CountingBloomFilter(cfg["est"], cfg["fpr"], hash_function=FIXED)
    b = CountingBloomFilter(cfg["est"], cfg["fpr"], hash_function=FIXED)
    m = a.number_bits
    for j in range(m):
        a._bloom[j] = ctx.int(f"a{j}", 0, 2 ** 24)
        b._bloom[j] = ctx.int(f"b{j}", 0, 2 ** 24)
    a.elements_added, b.elements_added = ctx.int("ta", 0, 2 ** 40), ctx.int("tb", 0, 2 ** 40)
    pa, pb = env.cells(a._bloom), env.cells(b._bloom)
    stub_estimate(ctx)
    u = a.union(b)
    ctx.check(u is not None and u is not a and u is not b, "cbf-union-new-object")
    ctx.check(ctx.and_([ctx.eq(r, x + y) for r, x, y in zip(env.cells(u._bloom), pa, pb)]), "cbf-union-is-cellwise-sum")
    ctx.check(ctx.and_(ctx.all_eq(pa, env.cells(a._bloom)), ctx.all_eq(pb, env.cells(b._bloom))), "operands-unchanged")


def cms_join_raw(ctx, cfg):
    """join on arbitrary (unsaturated) counters and totals - also states add/remove of never-added keys produce - is cellwise sum"""
    env.setup(ctx, "cms")
    from probables import CountMinSketch
    w, d = cfg["w"], cfg["d"]
    a, b = CountMinSketch(width=w, depth=d, hash_function=FIXED), CountMinSketch(width=w, depth=d, hash_function=FIXED)
    for j in range(w * d):
        a._bins[j] = ctx.int(f"a{j}", -2 ** 24, 2 ** 24)
        b._bins[j] = ctx.int(f"b{j}", -2 ** 24, 2 ** 24)
    ta, tb = ctx.int("ta", -2 ** 40, 2 ** 40), ctx.int("tb", -2 ** 40, 2 ** 40)
    a._CountMinSketch__elements_added, b._CountMinSketch__elements_added = ta, tb
    pa, pb = env.cells(a._bins), env.cells(b._bins)
    a.join(b)
    ctx.check(ctx.and_([ctx.eq(r, x + y) for r, x, y in zip(env.cells(a._bins), pa, pb)]), "cms-join-is-cellwise-sum")
    ctx.check(ctx.eq(a.elements_added, ta + tb), "cms-join-total")
    ctx.check(ctx.and_(ctx.all_eq(pb, env.cells(b._bins)), ctx.eq(tb, b.elements_added)), "operands-unchanged")
    # the receiver must not share storage with the argument: a later add on the receiver leaves the argument alone
    a.add_alt([0] * d, 1)
    ctx.check(ctx.and_(ctx.all_eq(pb, env.cells(b._bins)), ctx.eq(tb, b.elements_added)), "join-does-not-alias")


HARNESS = {"c12.bloom_union": bloom_union, "c12.cbf_union": cbf_union, "c12.cms_join": cms_join, "c12.cms_join_raw": cms_join_raw, "c12.cbf_union_raw": cbf_union_raw}


def jobs(tier):
    js = []
    for est, fpr in [(1, .9), (1, .5), (1, .3), (2, .3), (1, .05), (3, .28), (3, .25), (3, .2), (4, .25), (5, .3), (5, .22), (10, .05)] + ([(7, .1)] if tier == "thorough" else []):
        js.append({"h": "c12.bloom_union", "cfg": {"est": est, "fpr": fpr}, "opts": {"cost": est}})
    for est, fpr, K in [(1, .5, 2), (1, .3, 2), (2, .3, 2)] + ([(3, .2, 2), (2, .3, 3)] if tier == "thorough" else []):
        js.append({"h": "c12.cbf_union", "cfg": {"est": est, "fpr": fpr, "K": K}, "opts": {"cost": est * 10}})
    for w, d, K in [(1, 1, 2), (2, 2, 2), (3, 2, 2)] + ([(3, 3, 3), (3, 2, 3)] if tier == "thorough" else []):
        js.append({"h": "c12.cms_join", "cfg": {"w": w, "d": d, "K": K}, "opts": {"cost": w * d * 10}})
    for est, fpr in [(1, .5), (1, .3), (2, .3)]:
        js.append({"h": "c12.cbf_union_raw", "cfg": {"est": est, "fpr": fpr}, "opts": {"cost": est * 10}})
    for w, d in [(1, 1), (2, 2), (3, 2)]:
        js.append({"h": "c12.cms_join_raw", "cfg": {"w": w, "d": d}, "opts": {"cost": w * d * 10}})
    return js
