"""C03 - cuckoo filters lose no key through kicks, expansion or a failed insert (also serves C15, C08 and C14).
Shape (I): one add/remove/expand from an arbitrary table satisfying the C15 invariant; every fingerprint, the second
index (uninterpreted function) and EVERY random choice are symbolic."""
import itertools

from .. import env

PROPERTY = "C03"
LEVEL = "model_checking"
STUBS = ["random.choice/randint -> fresh symbolic value per call (SymRandom)",
         "hash_function: key -> symbolic 64-bit hash; str(fingerprint) -> uninterpreted function H2 (Ackermann encoding)",
         "array -> SymArray('I') (export and CountingCuckooBin)"]
ASSUMPTIONS = [
    "pre-state = arbitrary table under the representation invariant that C15 asserts on every post-state: bucket sizes <= bucket_size, every stored fingerprint non-zero, pairwise distinct, placed in one of its two candidate buckets; counting bins have count >= 1 (<= 2^20)",
    "the second candidate index hash(str(fingerprint)) % capacity is an uninterpreted function of the fingerprint (any hashing strategy), the first is fingerprint % capacity as the code computes it",
    "random.choice / random.randint return arbitrary values in range on every call (all resolutions, not one seed)",
    "stored fingerprint 0 (the empty-slot marker) is excluded from pre-states here; it is the subject of C05/F5",
]
BOUNDS = {
    "quick": "capacity 1..3, bucket_size 1..2, max_swaps 1..2 (and 3 on the full 3 x 1 table without auto-expansion), auto_expand on/off, fingerprint size 4 bytes (and 1 byte on capacity 2), every occupancy shape of the table; expansion_rate 2",
    "thorough": "adds max_swaps 3 and capacity 3 x bucket 2 with auto_expand on",
    "outside": "capacity > 3, bucket_size > 2, max_swaps > 3 (longer eviction chains), expansion_rate other than 2",
}
EXPECT_LABELS = {"quick": ["lookup-exact", "new-present", "old-present-after-ok", "no-old-missing-after-full", "removed-others-present",
                           "expand-all-present", "inv-bucket-size", "inv-candidate-bucket", "inv-distinct", "count-stored"]}
CNT_MAX = 2 ** 20


class Tab:
    """a cuckoo filter in an arbitrary valid state plus the ghost list of stored (key, fingerprint, count)"""


def build(ctx, cfg):
    env.setup(ctx, "cuckoo", "countingcuckoo")
    from probables import CuckooFilter, CountingCuckooFilter
    from probables.cuckoo.countingcuckoo import CountingCuckooBin
    counting = cfg.get("counting", False)
    cap, bsz, swaps, auto, fsz = cfg["cap"], cfg["bsz"], cfg["swaps"], cfg["auto"], cfg.get("fsz", 4)
    occ = cfg["occ"]
    fbits = 8 * fsz
    capmax = [cap, cap * 2, cap * 4]      # every capacity the table can reach here: residues are mod-free terms
    t = Tab()
    t.ctx, t.cfg, t.counting, t.fbits, t.capmax, t.HK = ctx, cfg, counting, fbits, capmax, {}

    def h2(arg):
        return ctx.uf("H2", arg, 0, 2 ** 64 - 1, mod=capmax)

    def hf(key, seed=0):
        if hasattr(key, "sym"):                      # str(symbolic fingerprint)
            return h2(key.sym)
        if isinstance(key, str) and key.isdigit():   # str(concrete fingerprint)
            return h2(int(key))
        return t.HK[key]
    t.hf = hf
    cls = CountingCuckooFilter if counting else CuckooFilter
    f = cls(capacity=cap, bucket_size=bsz, max_swaps=swaps, auto_expand=auto, finger_size=fsz, hash_function=hf)
    t.f = f
    t.keys = []       # (key name, fingerprint, count)
    total = 0
    for b, n in enumerate(occ):
        for j in range(n):
            if cfg.get("zero") and not t.keys:
                fp = 0          # the empty-slot marker as a stored fingerprint (a key whose hash has zero low bits)
            else:
                fp = ctx.hashval(f"fp_{b}_{j}", capmax, 1, 2 ** fbits - 1)
            i1, i2 = f._indicies_from_fingerprint(fp)
            ctx.assume(ctx.or_(ctx.eq(i1, b), ctx.eq(i2, b)))
            for _, o, _c in t.keys:
                ctx.assume(ctx.ne(fp, o))
            key = f"k{b}_{j}"
            t.HK[key] = fp                       # a key whose hash has exactly this fingerprint
            if counting:
                cnt = ctx.int(f"cnt_{b}_{j}", 1, CNT_MAX)
                f.buckets[b].append(CountingCuckooBin(fp, cnt))
            else:
                cnt = 1
                f.buckets[b].append(fp)
            total = total + cnt
            t.keys.append((key, fp, cnt))
    f._inserted_elements = total
    if counting:
        f._CountingCuckooFilter__unique_elements = len(t.keys)
    return t


def new_key(t, name="new"):
    ctx = t.ctx
    m = 1 << t.fbits
    fp = ctx.hashval(f"{name}.fp", t.capmax, 0, m - 1)
    hi = ctx.int(f"{name}.hi", 0, 2 ** (64 - t.fbits) - 1)
    t.HK[name] = ctx.compose(hi, m, fp)
    return fp


def candidates(t, fp):
    """the two candidate buckets of fingerprint fp for the CURRENT capacity, computed by the harness (fp mod capacity, and the
    supplied strategy applied to str(fp) mod capacity) - deliberately not through the filter's own index method"""
    cap = t.f.capacity
    return fp % cap, t.hf(str(fp)) % cap


def stored(t):
    """list of (bucket index, fingerprint, count) currently in the table"""
    out = []
    for b, bucket in enumerate(t.f.buckets):
        for e in bucket:
            out.append((b, e.finger, e.count) if t.counting else (b, e, 1))
    return out


def invariants(t, cap0, sfx=""):
    ctx, f = t.ctx, t.f
    ctx.check(len(f.buckets) == f.capacity and all(len(b) <= f.bucket_size for b in f.buckets), "inv-bucket-size" + sfx)
    ctx.check(f.capacity in (cap0, cap0 * 2, cap0 * 4), "inv-capacity-growth" + sfx)
    st = stored(t)
    conds = []
    for b, fp, cnt in st:
        i1, i2 = candidates(t, fp)
        conds.append(ctx.or_(ctx.eq(i1, b), ctx.eq(i2, b)))
    ctx.check(ctx.and_(conds), "inv-candidate-bucket" + sfx)
    ctx.check(ctx.and_([ctx.ne(a[1], b[1]) for a, b in itertools.combinations(st, 2)]), "inv-distinct" + sfx)
    if t.counting:
        ctx.check(ctx.and_([ctx.ge(c, 1) for _, _, c in st]), "inv-no-zero-count" + sfx)
        ctx.check(ctx.eq(f.elements_added, ctx.sum([c for _, _, c in st])), "count-stored" + sfx)
        ctx.check(f.unique_elements == len(st), "unique-is-bins" + sfx)
    else:
        ctx.check(f.elements_added == len(st), "count-stored" + sfx)
    return st


def lookup_term(t, fp):
    """what check() must answer for a key with fingerprint fp, as a term over the current table: the count stored
    for fp in one of fp's two candidate buckets (0 = absent).  c03.lookup proves the real check() equals this."""
    ctx, f = t.ctx, t.f
    i1, i2 = candidates(t, fp)
    return ctx.sum([ctx.ite(ctx.and_(ctx.eq(e, fp), ctx.or_(ctx.eq(i1, b), ctx.eq(i2, b))), c, 0) for b, e, c in stored(t)])


def present(t, fp):
    return t.ctx.gt(lookup_term(t, fp), 0)


def lookup(ctx, cfg):
    """the real check()/`in` on an arbitrary valid table == membership of the fingerprint in its two candidate buckets"""
    t = build(ctx, cfg)
    f = t.f
    nfp = new_key(t)
    want = lookup_term(t, nfp)
    got = f.check("new")
    if t.counting:
        ctx.check(ctx.eq(got, want), "lookup-exact")
    else:
        ctx.check(isinstance(got, bool) and ctx.fork(ctx.iff(got, ctx.gt(want, 0))), "lookup-exact")
    ctx.check(("new" in f) is bool(got), "in-operator")
    for key, fp, cnt in t.keys[:1]:
        got = f.check(key)
        ctx.check(ctx.eq(got, cnt) if t.counting else got is True, "lookup-stored-key")


def add(ctx, cfg):
    from probables.exceptions import CuckooFilterFullError
    t = build(ctx, cfg)
    f, cap0 = t.f, cfg["cap"]
    nfp = new_key(t)
    was = lookup_term(t, nfp)
    n_before = len(t.keys)
    try:
        f.add("new")
        ok = True
    except CuckooFilterFullError:
        ok = False
    if ok:
        ctx.check(present(t, nfp), "new-present")
        ctx.check(ctx.and_([present(t, fp) for _, fp, _ in t.keys]), "old-present-after-ok")
        if t.counting:
            ctx.check(ctx.and_([ctx.eq(lookup_term(t, fp), ctx.ite(ctx.eq(fp, nfp), cnt + 1, cnt)) for _, fp, cnt in t.keys]),
                      "cc-count-exact")
            ctx.check(ctx.eq(lookup_term(t, nfp), was + 1), "cc-count-exact")
        st = invariants(t, cap0)
        ctx.check(ctx.eq(len(st), ctx.ite(ctx.gt(was, 0), n_before, n_before + 1)), "stored-grows-by-new-only")
    else:
        sfx = "-after-expand-failure" if cfg["auto"] else "-after-full"
        ctx.check(ctx.eq(was, 0), "full-only-when-new" + sfx)
        if cfg.get("scope", "keys") == "keys":      # key loss is C03's subject; C15/C08/C14 reuse this harness for their own labels
            miss = ctx.sum([ctx.ite(present(t, fp), 0, 1) for _, fp, _ in t.keys])
            ctx.check(ctx.le(miss, 1), "at-most-one-old-missing" + sfx)
            ctx.check(ctx.eq(miss, 0), "no-old-missing" + sfx)
        invariants(t, cap0, sfx)      # also after a failed expansion the table that is left must be well-formed


def remove(ctx, cfg):
    t = build(ctx, cfg)
    f, cap0 = t.f, cfg["cap"]
    if not t.keys:
        nfp = new_key(t)
        ctx.check(f.remove("new") is False, "remove-absent-false")
        invariants(t, cap0)
        return
    j = cfg.get("victim", 0) % len(t.keys)
    key, fp, cnt = t.keys[j]
    tot = f.elements_added
    r = f.remove(key)
    ctx.check(r is True, "remove-present-true")
    ctx.check(ctx.eq(lookup_term(t, fp), cnt - 1), "cc-count-exact" if t.counting else "removed-absent")
    ctx.check(ctx.and_([ctx.eq(lookup_term(t, fp2), c2) for k2, fp2, c2 in t.keys if k2 != key]),
              "cc-count-exact" if t.counting else "removed-others-present")
    ctx.check(ctx.eq(f.elements_added, tot - 1), "count-minus-one")
    invariants(t, cap0)
    nfp = new_key(t)
    ctx.assume(ctx.not_(present(t, nfp)))
    before = stored(t)
    ctx.check(f.remove("new") is False, "remove-absent-false")
    after = stored(t)
    ctx.check(len(before) == len(after) and ctx.fork(ctx.and_([ctx.and_(x[0] == y[0], ctx.eq(x[1], y[1]), ctx.eq(x[2], y[2])) for x, y in zip(before, after)])),
              "remove-absent-noop")


def expand(ctx, cfg):
    from probables.exceptions import CuckooFilterFullError
    t = build(ctx, cfg)
    f, cap0 = t.f, cfg["cap"]
    try:
        f.expand()
    except CuckooFilterFullError:
        ctx.reach("expand-raised (outside the claim: the property speaks of calls that return normally)")
        return
    ctx.check(f.capacity == cap0 * 2, "expand-capacity")
    ctx.check(ctx.and_([ctx.eq(lookup_term(t, fp), cnt) for _, fp, cnt in t.keys]), "cc-count-exact" if t.counting else "expand-all-present")
    st = invariants(t, cap0)
    ctx.check(len(st) == len(t.keys), "expand-keeps-number")


def history(ctx, cfg):
    """(H) companion: adds from the freshly constructed filter through the public API only (real check()); invariants on every state"""
    from probables.exceptions import CuckooFilterFullError
    c = dict(cfg)
    c["occ"] = [0] * cfg["cap"]
    t = build(ctx, c)
    f = t.f
    added = []
    for i in range(cfg["n"]):
        new_key(t, f"key{i}")
        try:
            f.add(f"key{i}")
        except CuckooFilterFullError:
            ctx.reach("history-full")
            return
        added.append(f"key{i}")
        for k in added:
            ctx.check(bool(f.check(k)) is True, "history-all-present")
    invariants(t, cfg["cap"], "-history")


HARNESS = {"c03.add": add, "c03.remove": remove, "c03.expand": expand, "c03.history": history, "c03.lookup": lookup,
           "c03.cc_add": add, "c03.cc_remove": remove, "c03.cc_expand": expand, "c03.cc_history": history, "c03.cc_lookup": lookup}


def _occs(cap, bsz):
    return [list(o) for o in itertools.product(range(bsz + 1), repeat=cap)]


def _cfgs(tier, counting):
    out = []
    swaps_set = (1, 2) if tier == "quick" else (1, 2, 3)
    for cap, bsz in [(1, 1), (2, 1), (1, 2), (2, 2), (3, 1)] + ([(3, 2)] if tier == "thorough" else []):
        for swaps in swaps_set:
            for auto in (False, True):
                if auto and cap * bsz > (2 if tier == "quick" else 4):
                    continue      # an insertion that fails on a larger full table re-inserts everything with symbolic randomness: > 10 min per job
                for occ in _occs(cap, bsz):
                    if cap * bsz >= 6 and sum(occ) < cap * bsz - 1:
                        continue
                    if auto and cap * bsz >= 3 and sum(occ) == cap * bsz:
                        continue      # a failed insert on a FULL table of 3+ slots with auto-expansion: > 50 min per job
                    out.append({"cap": cap, "bsz": bsz, "swaps": swaps, "auto": auto, "occ": occ, "counting": counting})
    if tier == "quick":
        # a chain three kicks deep on the full 3 x 1 table (round 5: a shortcut in the kick loop that is only wrong from the
        # second kick on, and parks the fingerprint in hand in a bucket of the NEW key, needs max_swaps >= 3 and capacity >= 3)
        out.append({"cap": 3, "bsz": 1, "swaps": 3, "auto": False, "occ": [1, 1, 1], "counting": counting})
    # one-byte fingerprints on a small table
    for occ in _occs(2, 1):
        out.append({"cap": 2, "bsz": 1, "swaps": 1, "auto": False, "occ": occ, "counting": counting, "fsz": 1})
    return out


def _jobs(tier, counting):
    pre = "c03.cc_" if counting else "c03."
    js = []
    for c in _cfgs(tier, counting):
        full = sum(c["occ"])
        cost = (c["cap"] * c["bsz"]) ** 2 * c["swaps"] * (20 if c["auto"] else 1) * (1 + full)
        js.append({"h": pre + "add", "cfg": c, "opts": {"cost": cost, "index_concretize_limit": 8, "witnesses": 1, "max_seconds": 3000}})
        if c["swaps"] == 1 and not c["auto"]:
            js.append({"h": pre + "lookup", "cfg": c, "opts": {"index_concretize_limit": 8, "witnesses": 1}})
            for v in range(max(full, 1)):
                js.append({"h": pre + "remove", "cfg": dict(c, victim=v), "opts": {"index_concretize_limit": 8, "witnesses": 1}})
            if c["cap"] * c["bsz"] < 6 or full < 5:
                js.append({"h": pre + "expand", "cfg": c, "opts": {"cost": cost, "index_concretize_limit": 8, "witnesses": 1, "max_seconds": 1500}})
    for cap, bsz, n in [(1, 1, 2), (2, 1, 3), (2, 2, 3)]:
        for auto in (False, True):
            if auto and n == 3:
                n = 2          # three adds with auto-expansion from the fresh table: > 15 000 paths, not finished in 10 min
            js.append({"h": pre + "history", "cfg": {"cap": cap, "bsz": bsz, "swaps": 2, "auto": auto, "n": n, "counting": counting},
                       "opts": {"cost": 50, "index_concretize_limit": 8, "witnesses": 1}})
    return js


def jobs(tier):
    return _jobs(tier, False) + _jobs(tier, True)


def cc_jobs(tier):
    return scoped(_jobs(tier, True), "count")


def scoped(js, scope):
    return [dict(j, cfg=dict(j["cfg"], scope=scope)) for j in js]
