"""C01 - Bloom filters never report an added key as absent.
Shape (I): one add from an arbitrary bit array; glue steps for export/load, union, expanding filters, wrappers;
(H) companion: short histories from the fresh object."""
from .. import env

PROPERTY = "C01"
CROSS_CHECK = True      # thorough: dumped assertion queries are re-decided by z3 4.8.12 and cvc5 1.0
LEVEL = "model_checking"
STUBS = ["array -> SymArray('B')", "bytes/bytearray/int/bin/hexlify/unhexlify/str/BytesIO shadows in probables.blooms.bloom",
         "Struct class attributes -> SymStruct", "hash_function -> dictionary key -> symbolic 64-bit vector"]
ASSUMPTIONS = [
    "a key is represented by its vector of hash values: arbitrary integers (quick: [0,2^64); thorough also negative and > 2^64), i.e. every hashing strategy",
    "pre-state = arbitrary bit array (every bit array is reachable: add_alt with suitable vectors) and arbitrary element count",
    "geometry (number of bits/hashes) concrete per job, produced by the real constructor from (est_elements, fpr)",
    "on-disk variant: see C11 (VFS model); rotating variant: see C10",
]
BOUNDS = {
    "quick": "hash values in [0,2^64) and, for the geometries up to 16 bits, in [-2^64, 2^65]; geometries (est,fpr) -> bits/hashes: (1,.9)->1/1, (1,.5)->2/1, (1,.3)->3/2, (2,.3)->6/2, (1,.05)->7/5, (3,.28)->8/2, (3,.25)->9/2, (3,.2)->11/3, (4,.25)->12/2, (5,.3)->13/2, (5,.22)->16/2, (10,.05)->63/4 (every residue of the bit count modulo 8); expanding filters with 1..3 sub-filters; histories of 3 adds; add/check/`in` with the library's default strategy (real FNV code on both sides) on a fixed list of 13 text and bytes keys - empty, ASCII, accents composed/decomposed, CJK, astral, NUL, Latin-1 edge, bytes >= 0x80: a sample of the key space - from an arbitrary bit array on the geometries up to 16 bits",
    "thorough": "adds (4,.06)->24/4, (7,.1)->34/3, (4,.01)->39/7 for the core step, each also with hash values in [-2^64, 2^65]; histories of 4 adds",
    "outside": "more than 63 bits / 7 hashes (192 and 1438 bits were decided on an idle machine but are not part of the tier: their queries time out under load), more than 3 sub-filters; actual md5/sha256/fnv values (covered as arbitrary integers; FNV itself is C18)",
}
EXPECT_LABELS = {"quick": ["new-present", "old-still-present", "bits-monotone", "bits-exact", "count+1", "load-keeps-key",
                           "union-keeps-keys", "expanding-keeps-old", "wrapper-present", "default-strategy-present", "history-all-present"]}

SMALL = [(1, .9), (1, .5), (1, .3), (2, .3), (1, .05), (3, .28), (3, .25), (3, .2), (4, .25), (5, .3), (5, .22)]      # (3,.28)->8 bits, (5,.22)->16 bits: whole bytes
QUICK = SMALL + [(10, .05)]
# (20,.01)->192/7 and (100,.001)->1438/10 were dropped from the thorough tier: their `bits-exact` query is decided in 2-5 min on an
# idle machine but comes back `unknown` (5 min limit) when the machine is loaded, and an inconclusive run is not a pass
THOROUGH = QUICK + [(4, .06), (7, .1), (4, .01)]


def hv(ctx, name, k, m, wide=False):
    """a key = k arbitrary hash values (decomposed modulo m, the size the library is expected to reduce them by)"""
    lo, hi = (-(2 ** 64), 2 ** 65) if wide else (0, 2 ** 64 - 1)
    return [ctx.hashval(f"{name}{i}", m, lo, hi) for i in range(k)]


def sym_bloom(ctx, est, fpr, tag="", hash_function=None, cls=None):
    """a BloomFilter built by the real constructor whose bit array and element count are arbitrary"""
    from probables import BloomFilter
    bf = (cls or BloomFilter)(est_elements=est, false_positive_rate=fpr, hash_function=hash_function)
    if not ctx.sym:
        # replay: the state is RE-CREATED THROUGH THE PUBLIC API (one add_alt per set bit, the documented elements_added
        # setter); a model state this cannot reproduce is unreachable and the replay ends without confirming anything
        want = [ctx.bits(f"{tag}cell{j}", 8) for j in range(bf.bloom_length)]
        for p in range(bf.number_bits):
            if (want[p // 8] >> (p % 8)) & 1:
                bf.add_alt([p] * bf.number_hashes)
        bf.elements_added = ctx.int(f"{tag}added", 0, 2 ** 64 - 2)
        ctx.assume(list(bf._bloom[: bf.bloom_length]) == want)
        return bf
    for j in range(bf.bloom_length):
        bf._bloom[j] = ctx.bits(f"{tag}cell{j}", 8)
    # padding bits of the last byte: zero in every reachable state (k % m never addresses them)
    pad = bits_of(ctx, bf)[bf.number_bits:]
    ctx.assume(ctx.and_([ctx.not_(p) for p in pad]))
    bf.elements_added = ctx.int(f"{tag}added", 0, 2 ** 64 - 2)
    return bf


def bits_of(ctx, bf):
    out = []
    for c in env.cells(bf._bloom)[: bf.bloom_length]:
        out += ctx.bitlist(c, 8)
    return out


def step(ctx, cfg):
    env.setup(ctx, "bloom")
    bf = sym_bloom(ctx, cfg["est"], cfg["fpr"])
    m, k = bf.number_bits, bf.number_hashes
    old, new = hv(ctx, "old", k, m, cfg.get("wide")), hv(ctx, "new", k, m, cfg.get("wide"))
    ctx.assume(bf.check_alt(old) is True)
    pre, cnt = bits_of(ctx, bf), bf.elements_added
    r = bf.add_alt(new)
    post = bits_of(ctx, bf)
    ctx.check(r is None, "add-returns-none")
    ctx.check(bf.check_alt(new) is True, "new-present")
    ctx.check(bf.check_alt(old) is True, "old-still-present")
    ctx.check(ctx.eq(bf.elements_added, cnt + 1), "count+1")
    ctx.check(ctx.and_([ctx.implies(p, q) for p, q in zip(pre, post)]), "bits-monotone")
    pos = [h % m for h in new]
    ctx.check(ctx.and_([ctx.iff(q, ctx.or_([p] + [ctx.eq(x, j) for x in pos])) for j, (p, q) in enumerate(zip(pre, post))]),
              "bits-exact")
    ctx.check(len(env.cells(bf._bloom)) == bf.bloom_length, "length-kept")


def absent_stays_decidable(ctx, cfg):
    """check_alt answers exactly 'all k positions set' (no false negatives, and False only when a position is clear)"""
    env.setup(ctx, "bloom")
    bf = sym_bloom(ctx, cfg["est"], cfg["fpr"])
    m, k = bf.number_bits, bf.number_hashes
    q = hv(ctx, "q", k, m)
    bits = bits_of(ctx, bf)
    ans = bf.check_alt(q)
    want = ctx.and_([ctx.or_([ctx.and_(ctx.eq(h % m, j), bits[j]) for j in range(m)]) for h in q])
    ctx.check(ctx.iff(ans, want), "check-is-all-positions-set")


def wrappers(ctx, cfg):
    """add(key) / check(key) / `in` / hashes(key) with str and bytes keys through a dictionary strategy"""
    env.setup(ctx, "bloom")
    table = {}

    def hf(key, depth=1):
        return table[key][:depth]
    bf = sym_bloom(ctx, cfg["est"], cfg["fpr"], hash_function=hf)
    k, m = bf.number_hashes, bf.number_bits
    table["old"], table[b"new"] = hv(ctx, "old", k, m), hv(ctx, "new", k, m)
    ctx.assume(bf.check("old") is True)
    cnt = bf.elements_added
    bf.add(b"new")
    ctx.check(bf.check(b"new") is True and (b"new" in bf) is True, "wrapper-present")
    ctx.check(bf.check("old") is True and ("old" in bf) is True, "wrapper-old-present")
    ctx.check(ctx.eq(bf.elements_added, cnt + 1), "count+1")
    ctx.check(bf.hashes(b"new") == table[b"new"] and bf.hashes("old", 1) == table["old"][:1], "hashes-is-strategy")


def load(ctx, cfg):
    """export -> load on each channel keeps an arbitrary present key present (and adding afterwards still works)"""
    env.setup(ctx, "bloom")
    from probables import BloomFilter
    bf = sym_bloom(ctx, cfg["est"], cfg["fpr"])
    k, m = bf.number_hashes, bf.number_bits
    old, new = hv(ctx, "old", k, m), hv(ctx, "new", k, m)
    ctx.assume(bf.check_alt(old) is True)
    ch = cfg["channel"]
    if ch == "bytes":
        g = BloomFilter.frombytes(env.export_bytes(ctx, bf))
    elif ch == "dunder-bytes":
        g = BloomFilter.frombytes(bf.__bytes__())
    else:
        g = BloomFilter(hex_string=bf.export_hex())
    ctx.check(g.number_bits == bf.number_bits and g.number_hashes == k, "load-geometry")
    ctx.check(g.check_alt(old) is True, "load-keeps-key")
    g.add_alt(new)
    ctx.check(g.check_alt(old) is True and g.check_alt(new) is True, "load-then-add")


def union(ctx, cfg):
    env.setup(ctx, "bloom")
    hf = lambda key, depth=1: [7, 11, 13, 17, 19, 23, 29, 31, 37, 41][:depth]  # noqa: E731  (similarity probes "test")
    a = sym_bloom(ctx, cfg["est"], cfg["fpr"], "a.", hf)
    b = sym_bloom(ctx, cfg["est"], cfg["fpr"], "b.", hf)
    k, m = a.number_hashes, a.number_bits
    ka, kb = hv(ctx, "ka", k, m), hv(ctx, "kb", k, m)
    ctx.assume(a.check_alt(ka) is True)
    ctx.assume(b.check_alt(kb) is True)
    env_math(ctx)
    u = a.union(b)
    ctx.check(u is not None, "union-compatible")
    ctx.check(u.check_alt(ka) is True and u.check_alt(kb) is True, "union-keeps-keys")


def union_mismatch(ctx, cfg):
    """'...or united with another filter' when the operands do NOT share a geometry: union() either refuses (None, as documented)
    or the filter it returns still reports the keys of both operands - it never returns a filter that lost keys"""
    env.setup(ctx, "bloom")
    hf = lambda key, depth=1: [7, 11, 13, 17, 19, 23, 29, 31, 37, 41][:depth]  # noqa: E731
    a = sym_bloom(ctx, cfg["ga"][0], cfg["ga"][1], "a.", hf)
    b = sym_bloom(ctx, cfg["gb"][0], cfg["gb"][1], "b.", hf)
    k = max(a.number_hashes, b.number_hashes)
    top = 4 * a.number_bits * b.number_bits      # small hash values: the mismatched side reduces them by a modulus they are not decomposed for
    ka = [ctx.hashval(f"ka{i}", a.number_bits, 0, top) for i in range(k)]
    kb = [ctx.hashval(f"kb{i}", b.number_bits, 0, top) for i in range(k)]
    ctx.assume(a.check_alt(ka) is True)
    ctx.assume(b.check_alt(kb) is True)
    env_math(ctx)
    for x, y, tag in ((a, b, ""), (b, a, "-swapped")):
        u = x.union(y)
        ctx.check(u is None or (u.check_alt(ka) is True and u.check_alt(kb) is True), "union-mismatch-none-or-keeps-keys" + tag)


def env_math(ctx):
    """estimate_elements() after union/intersection calls math.log on a symbolic popcount: stubbed here (C14 checks the formula)"""
    if ctx.sym:
        ctx.patch(env.mod("bloom").BloomFilter, "estimate_elements", lambda self: 0)


def expanding(ctx, cfg):
    """ExpandingBloomFilter with L sub-filters (arbitrary bits, counters <= est): add_alt (growth or not) and push keep keys"""
    env.setup(ctx, "bloom", "expanding")
    from probables import ExpandingBloomFilter, BloomFilter
    est, fpr, L = cfg["est"], cfg["fpr"], cfg["L"]
    f = ExpandingBloomFilter(est_elements=est, false_positive_rate=fpr)
    while len(f._blooms) < L:
        f._blooms.append(BloomFilter(est_elements=est, false_positive_rate=fpr, hash_function=f.hash_function))
    for i, b in enumerate(f._blooms):
        for j in range(b.bloom_length):
            b._bloom[j] = ctx.bits(f"f{i}cell{j}", 8)
        b._els_added = ctx.int(f"cnt{i}", 0, est)
    k, m = f._blooms[0].number_hashes, f._blooms[0].number_bits
    old, new = hv(ctx, "old", k, m), hv(ctx, "new", k, m)
    ctx.assume(f.check_alt(old) is True)
    force = cfg["force"]
    if cfg["op"] == "add":
        f.add_alt(new, force)
        ctx.check(f.check_alt(new) is True, "expanding-new-present")
    else:
        f.push()
    ctx.check(f.check_alt(old) is True, "expanding-keeps-old")
    ctx.check(len(f._blooms) in (L, L + 1), "expanding-grows-by-at-most-one")


def expanding_load(ctx, cfg):
    """expanding / rotating filter with a supplied (hand-written) strategy: a key added through add(key) is still reported by
    check(key) / `in` after export -> frombytes, and after a further add on the loaded filter"""
    env.setup(ctx, "bloom", "expanding")
    from probables import ExpandingBloomFilter, RotatingBloomFilter, BloomFilter
    est, fpr, L = cfg["est"], cfg["fpr"], cfg["L"]
    table = {}
    hf = lambda key, depth=1: table[key][:depth]  # noqa: E731
    rot = cfg.get("rot", False)
    f = RotatingBloomFilter(est, fpr, max_queue_size=4, hash_function=hf) if rot else ExpandingBloomFilter(est, fpr, hash_function=hf)
    while len(f._blooms) < L:
        f._blooms.append(BloomFilter(est_elements=est, false_positive_rate=fpr, hash_function=hf))
    for i, b in enumerate(f._blooms):
        for j in range(b.bloom_length):
            b._bloom[j] = ctx.bits(f"f{i}cell{j}", 8)
        b._els_added = ctx.int(f"cnt{i}", 0, est)
    k, m = f._blooms[0].number_hashes, f._blooms[0].number_bits
    table["old"], table[b"new"] = hv(ctx, "old", k, m), hv(ctx, "new", k, m)
    ctx.assume(f.check("old") is True)
    blob = env.export_bytes(ctx, f)
    g = RotatingBloomFilter.frombytes(blob, max_queue_size=4, hash_function=hf) if rot else ExpandingBloomFilter.frombytes(blob, hash_function=hf)
    ctx.check(g.check("old") is True and ("old" in g) is True, "load-keeps-key")
    g.add(b"new")
    ctx.check(g.check("old") is True and g.check(b"new") is True, "load-then-add")


def history(ctx, cfg):
    """(H) companion: n adds from the freshly constructed filter, no invariant: every key present at the end and after each add"""
    env.setup(ctx, "bloom")
    from probables import BloomFilter
    bf = BloomFilter(cfg["est"], cfg["fpr"])
    k = bf.number_hashes
    keys = []
    for s in range(cfg["n"]):
        h = hv(ctx, f"k{s}_", k, bf.number_bits)
        bf.add_alt(h)
        keys.append(h)
        ctx.check(all(bf.check_alt(x) is True for x in keys), "history-all-present")
        ctx.check(bf.elements_added == s + 1, "history-count")
    pad = bits_of(ctx, bf)[bf.number_bits:]
    ctx.check(ctx.and_([ctx.not_(p) for p in pad]), "history-padding-zero")


# keys for the default strategy: the key handling of add()/check() is concrete string code, so it is exercised on a fixed
# list (a SAMPLE of the key space: empty, ASCII, accents composed / decomposed, CJK, astral, NUL, Latin-1 edge, bytes >= 0x80)
DEFAULT_KEYS = ["", "a", "caf\u00e9", "cafe\u0301", "\u65e5\u672c\u8a9e", "\U0001f600", "a\x00b", "\x80", "\u00ff", b"", b"a", b"\xff\x00\x80", "caf\u00e9".encode()]


def default_strategy(ctx, cfg):
    """add(key) / check(key) / `in` with the library's OWN default strategy (hash_function=None) from an arbitrary bit array:
    the real FNV code hashes the key on both sides; every key of DEFAULT_KEYS is present right after its add, at the end,
    and after export -> load (the loaded filter hashes with the default strategy again)"""
    env.setup(ctx, "bloom")
    from probables import BloomFilter
    bf = sym_bloom(ctx, cfg["est"], cfg["fpr"])
    ctx.assume(bf.elements_added <= 2 ** 64 - 2 - len(DEFAULT_KEYS))      # the 64-bit limit of the count is C16's subject
    for s, key in enumerate(DEFAULT_KEYS):
        cnt = bf.elements_added
        bf.add(key)
        ctx.check(bf.check(key) is True and (key in bf) is True, "default-strategy-present")
        ctx.check(bf.check_alt(bf.hashes(key)) is True, "default-strategy-hashes-present")
        ctx.check(ctx.eq(bf.elements_added, cnt + 1), "count+1")
    ctx.check(all(bf.check(key) is True for key in DEFAULT_KEYS), "default-strategy-all-present")
    g = BloomFilter.frombytes(env.export_bytes(ctx, bf))
    ctx.check(all(g.check(key) is True for key in DEFAULT_KEYS), "default-strategy-load-keeps-keys")


HARNESS = {"c01.default_strategy": default_strategy, "c01.step": step, "c01.decide": absent_stays_decidable, "c01.wrappers": wrappers, "c01.load": load,
           "c01.union": union, "c01.union_mismatch": union_mismatch, "c01.expanding": expanding, "c01.history": history, "c01.expanding_load": expanding_load}


def jobs(tier):
    js = []
    geos = QUICK if tier == "quick" else THOROUGH
    for est, fpr in geos:
        big = {"path_seconds": 2400, "max_seconds": 3000} if est >= 20 else {}     # 192 / 1438 bits: one path takes 3-10 min
        js.append({"h": "c01.step", "cfg": {"est": est, "fpr": fpr}, "opts": dict(big, cost=est * 10)})
        if (tier == "thorough" and est < 100) or (tier == "quick" and est <= 5):       # 1438 bits with hash values in [-2^64, 2^65]: 'bits-exact' is `unknown` after 5 min
            js.append({"h": "c01.step", "cfg": {"est": est, "fpr": fpr, "wide": True}, "opts": dict(big, cost=est * 10)})
    for est, fpr in SMALL:
        js.append({"h": "c01.decide", "cfg": {"est": est, "fpr": fpr}})
        js.append({"h": "c01.wrappers", "cfg": {"est": est, "fpr": fpr}})
        js.append({"h": "c01.default_strategy", "cfg": {"est": est, "fpr": fpr}})
        js.append({"h": "c01.union", "cfg": {"est": est, "fpr": fpr}})
        js.append({"h": "c01.history", "cfg": {"est": est, "fpr": fpr, "n": 3 if tier == "quick" else 4}})
        for ch in ("bytes", "dunder-bytes", "hex"):
            js.append({"h": "c01.load", "cfg": {"est": est, "fpr": fpr, "channel": ch}})
    for est, fpr in [(1, .5), (2, .3), (3, .2)] if tier == "quick" else [(1, .5), (2, .3), (3, .2), (5, .3)]:
        for L in (1, 2, 3):
            if tier == "quick" and est == 3 and L == 3:
                continue        # 900 paths / 90 s: thorough only
            for op, force in (("add", False), ("add", True), ("push", False)):
                js.append({"h": "c01.expanding", "cfg": {"est": est, "fpr": fpr, "L": L, "op": op, "force": force},
                           "opts": {"cost": L * est}})
    for est, fpr in [(1, .5), (2, .3), (3, .28)]:
        for L in (1, 2):
            for rot in (False, True):
                js.append({"h": "c01.expanding_load", "cfg": {"est": est, "fpr": fpr, "L": L, "rot": rot}, "opts": {"cost": L * est}})
    # same byte length and hashes but a different number of bits; same bits, different hashes; different byte lengths
    mism = [((2, .384), (2, .488)), ((3, .202), (3, .238)), ((4, .188), (5, .216)), ((1, .238), (2, .488)), ((1, .5), (3, .2)), ((4, .384), (5, .422))]
    for ga, gb in mism + ([((10, .048), (10, .05))] if tier == "thorough" else []):
        js.append({"h": "c01.union_mismatch", "cfg": {"ga": list(ga), "gb": list(gb)}, "opts": {"cost": ga[0] * 5}})
    if tier == "thorough":
        js.append({"h": "c01.load", "cfg": {"est": 10, "fpr": .05, "channel": "bytes"}})
        js.append({"h": "c01.union", "cfg": {"est": 10, "fpr": .05}})
    return js
