"""C10 - rotating Bloom filter stays bounded and keeps the most recent insertions.  Shape (I) with a ghost counter."""
from .. import env
from .c09 import sym_state, boundary, boundary_jobs

PROPERTY = "C10"
CROSS_CHECK = True      # thorough: dumped assertion queries are re-decided by z3 4.8.12 and cvc5 1.0
LEVEL = "model_checking"
TECHNIQUE = ("symbolic execution of the real functions over z3 terms (SMT, bounded; one inductive step from an arbitrary valid state + bounded histories); "
             "counterexamples replayed concretely.  That the rotation rule does not depend on the geometry is decided by a sweep over a grid of concrete "
             "(est_elements, rate, counter) configurations with symbolic bit arrays and positions - there the float statistics run as real Python floats")
STUBS = ["array -> SymArray('B')"]
ASSUMPTIONS = [
    "window / history harnesses: sub-filters use a one-hash geometry (rate 0.5; thorough also rate 0.3 / two hashes); that rotation does not depend on the geometry is decided separately by the boundary sweep shared with C09 (full queue of 2, newest counter concrete at est-1 / est, real float code, est 1..64 x 10 rates)",
    "queue length L <= max_queue_size in the pre-state (a stream re-loaded with a smaller re-supplied limit is outside: the format does not store the limit)",
    "sliding window: a marked key lives in sub-filter p; ghost s = effective insertions since the mark; pre-state invariant s >= (a-1)*est + count(newest) with a = number of sub-filters after p, all of them created by rotation after the mark (full except the newest); the invariant is asserted again on the post-state",
    "explicit push/pop only in the boundedness harness (the window clause excludes them, as the property states)",
]
BOUNDS = {
    "quick": "boundary sweep est 1..64 x 10 rates on a full queue of 2; est in {1,2,3}, max_queue_size 1..3, every queue length 1..Q and every position of the marked key; add new/duplicate/forced, push, pop; histories of 4 adds from fresh (Q 1..2, est 1..2)",
    "thorough": "adds max_queue_size 4, est 5 and two-hash sub-filters",
    "outside": "queues longer than 4, est > 5",
}
EXPECT_LABELS = {"quick": ["queue-bounds", "no-overfill", "present-after", "window-filter-kept", "window-key-present", "ghost-invariant",
                           "pop-refused-at-1", "push-bounded", "history-window", "absent-then-present"]}


def _rot(ctx, cfg):
    env.setup(ctx, "bloom", "expanding")
    from probables import RotatingBloomFilter, BloomFilter
    est, Q, L = cfg["est"], cfg["Q"], cfg["L"]
    f = RotatingBloomFilter(est_elements=est, false_positive_rate=cfg.get("rate", 0.5), max_queue_size=Q)
    cnt = sym_state(ctx, f, L, est, BloomFilter)
    return f, cnt


def window(ctx, cfg):
    est, Q, L, p, force = cfg["est"], cfg["Q"], cfg["L"], cfg["p"], cfg["force"]
    f, cnt = _rot(ctx, cfg)
    a = L - 1 - p
    s = ctx.int("s", 0, 10 ** 6)
    if a >= 1:
        for c in cnt[p:-1]:
            ctx.assume(ctx.eq(c, est))
        ctx.assume(ctx.ge(cnt[-1], 1))
        ctx.assume(ctx.ge(s, (a - 1) * est + cnt[-1]))
    k, m = f._blooms[0].number_hashes, f._blooms[0].number_bits
    mk = [ctx.hashval(f"m{i}", m) for i in range(k)]
    ctx.assume(f._blooms[p].check_alt(mk) is True)        # the marked key was inserted into sub-filter p
    marked = f._blooms[p]
    h = [ctx.hashval(f"h{i}", m) for i in range(k)]
    was_present = f.check_alt(h)
    added0 = f.elements_added
    f.add_alt(h, force)
    eff = (not was_present) or force
    s2 = s + 1 if eff else s
    L2 = len(f._blooms)
    ctx.check(1 <= L2 <= Q and f.current_queue_size == L2 and f.max_queue_size == Q, "queue-bounds")
    ctx.check(ctx.and_([ctx.le(b.elements_added, est) for b in f._blooms]), "no-overfill")
    ctx.check(f.check_alt(h) is True, "present-after")
    ctx.check(f.elements_added == added0 + 1, "elements_added+1")
    still = any(b is marked for b in f._blooms)
    if ctx.fork(ctx.le(s2, (Q - 1) * est)):
        ctx.check(still, "window-filter-kept")
        if still:
            ctx.check(f.check_alt(mk) is True, "window-key-present")
    if still:
        p2 = [i for i, b in enumerate(f._blooms) if b is marked][0]
        a2 = L2 - 1 - p2
        if a2 >= 1:
            ctx.check(ctx.and_([ctx.eq(b.elements_added, est) for b in f._blooms[p2:-1]] + [ctx.ge(f._blooms[-1].elements_added, 1),
                               ctx.ge(s2, (a2 - 1) * est + f._blooms[-1].elements_added)]), "ghost-invariant")


def insert_marks(ctx, cfg):
    """base of the window argument: a key reported absent and then added lands in the NEWEST sub-filter, s = 0 satisfies the invariant"""
    est, Q, L = cfg["est"], cfg["Q"], cfg["L"]
    f, cnt = _rot(ctx, cfg)
    k, m = f._blooms[0].number_hashes, f._blooms[0].number_bits
    h = [ctx.hashval(f"h{i}", m) for i in range(k)]
    ctx.assume(f.check_alt(h) is False)
    f.add_alt(h)
    ctx.check(f.check_alt(h) is True, "absent-then-present")
    ctx.check(f._blooms[-1].check_alt(h) is True, "absent-then-present-in-newest")
    ctx.check(1 <= len(f._blooms) <= Q, "queue-bounds")


def pushpop(ctx, cfg):
    from probables.exceptions import RotatingBloomFilterError
    est, Q, L, op = cfg["est"], cfg["Q"], cfg["L"], cfg["op"]
    f, cnt = _rot(ctx, cfg)
    newest = f._blooms[-1]
    if op == "push":
        f.push()
        ctx.check(1 <= len(f._blooms) <= Q, "push-bounded")
        ctx.check(len(f._blooms) == min(L + 1, Q) and f._blooms[-1] is not newest and f._blooms[-1].elements_added == 0, "push-adds-fresh-newest")
    else:
        try:
            f.pop()
            ok = True
        except RotatingBloomFilterError:
            ok = False
        if L == 1:
            ctx.check(not ok and len(f._blooms) == 1, "pop-refused-at-1")
        else:
            ctx.check(ok and len(f._blooms) == L - 1 and f._blooms[-1] is newest, "pop-drops-oldest")
    ctx.check(ctx.and_([ctx.le(b.elements_added, est) for b in f._blooms]), "no-overfill")
    ctx.check(len(f._blooms) >= 1, "queue-bounds")


def history(ctx, cfg):
    """(H): adds from fresh through add(key); every key inserted while absent stays present for (Q-1)*est further effective insertions"""
    env.setup(ctx, "bloom", "expanding")
    from probables import RotatingBloomFilter
    est, Q, n = cfg["est"], cfg["Q"], cfg["n"]
    table = {}
    f = RotatingBloomFilter(est_elements=est, false_positive_rate=0.5, max_queue_size=Q, hash_function=lambda key, depth=1: table[key][:depth])
    k, m = f._blooms[0].number_hashes, f._blooms[0].number_bits
    marks = []          # [key, effective insertions since]
    for s in range(n):
        key = f"k{s}"
        table[key] = [ctx.hashval(f"k{s}_{i}", m) for i in range(k)]
        force = cfg["forces"][s]
        was = f.check(key)
        f.add(key, force)
        eff = force or not was
        if eff:
            for mk in marks:
                mk[1] += 1
        if not was:
            marks.append([key, 0])
        ctx.check(1 <= f.current_queue_size <= Q and all(b.elements_added <= est for b in f._blooms), "queue-bounds")
        for mkey, since in marks:
            if since <= (Q - 1) * est:
                ctx.check(f.check(mkey) is True, "history-window")
        ctx.check(f.elements_added == s + 1, "history-elements_added")


HARNESS = {"c09.boundary": boundary, "c10.window": window, "c10.insert_marks": insert_marks, "c10.pushpop": pushpop, "c10.history": history}


def jobs(tier):
    import itertools
    js = []
    ests = (1, 2, 3) if tier == "quick" else (1, 2, 3, 5)
    Qs = (1, 2, 3) if tier == "quick" else (1, 2, 3, 4)
    rates = (0.5,) if tier == "quick" else (0.5, 0.3)
    for rate in rates:
        for est in ests:
            if rate == 0.3 and est > 3:
                continue
            for Q in Qs:
                for L in range(1, Q + 1):
                    for p in range(L):
                        for force in (False, True):
                            js.append({"h": "c10.window", "cfg": {"est": est, "Q": Q, "L": L, "p": p, "force": force, "rate": rate}})
                    js.append({"h": "c10.insert_marks", "cfg": {"est": est, "Q": Q, "L": L, "rate": rate}})
                    for op in ("push", "pop"):
                        js.append({"h": "c10.pushpop", "cfg": {"est": est, "Q": Q, "L": L, "op": op, "rate": rate}, "opts": {"no_witness": False}})
    js += boundary_jobs(tier, True)
    for est in (1, 2):
        for Q in (1, 2):
            for forces in itertools.product((False, True), repeat=4):
                js.append({"h": "c10.history", "cfg": {"est": est, "Q": Q, "n": 4, "forces": list(forces)}})
    return js
