"""C07 - derived sizes honour the requested accuracy and are stable across reloads.  Shape (K), floating point: the real sizing
code runs over IEEE binary64/binary32 proxies (QF_FP).  PARTIAL: only the clauses listed in BOUNDS are decided (DESIGN 7/C07)."""
from .. import env

PROPERTY = "C07"
CROSS_CHECK = True      # thorough: dumped assertion queries are re-decided by z3 4.8.12 and cvc5 1.0
LEVEL = "model_checking"
TECHNIQUE = "symbolic execution of the real sizing code over IEEE-754 proxies (z3 QF_FP / QF_BV); per-binade unsat for the count-min width clause; ln/log2/exp uninterpreted"
STUBS = ["float/int/math/_FPR_STRUCT in probables.blooms.bloom -> binary64/binary32 proxies, math.log uninterpreted",
         "math/array in probables.countminsketch -> proxies (the counter array is not allocated for a symbolic width)"]
ASSUMPTIONS = [
    "DECIDED: (a) the rate a Bloom filter stores is the binary32 narrowing of the request and a fixed point of that narrowing, and re-deriving the geometry from (est, stored rate) - what every reload does - returns the same (rate, hashes, bits), for EVERY binary64 rate the constructor accepts (est 1 and 10; ln uninterpreted, i.e. any pure function)",
    "DECIDED: (d) count-min width = ceil(2/e) gives 2/width <= e as Python evaluates it, for all binary64 e in the stated binades, EXCEPT the class where the rounded quotient 2/e is itself an integer (known finding F10: there the check 2/width <= e fails by one ulp)",
    "DECIDED: (f) bloom_length = ceil(number_bits / 8.0) equals (m + 7) div 8 and export_size = bloom_length + 20 for every m < 2^32; counting Bloom 4*m + 20",
    "DECIDED structurally (g): for est in {1, 10, 1000} and every accepted rate the executed Bloom sizing equals the documented m = ceil(-n ln p32 / ln^2 2), k = round(ln 2 m / n); the executed count-min depth equals ceil(-ln(1-c)/ln 2); the executed cuckoo fingerprint width equals ceil(log2(1/e) + log2(b) + 1) for bucket sizes 1,2,3,4,5,7 - with ln / log2 UNINTERPRETED (equality for every interpretation). A counterexample is only reported if, replayed with the real math functions, the accuracy clause itself fails (k >= 1 and theoretical rate <= 1.07 p; 1 - 2^-depth >= c; 2b/2^bits <= e); otherwise the model is blocked and the search continues (8 tries, then inconclusive)",
    "cuckoo fingerprint clause: log2 is uninterpreted except at the integer breakpoints of its one application 1/e (x >= 2^k -> log2 x >= k, x <= 2^k -> log2 x <= k for k = 0..32: monotone and exact at powers of two, which glibc's log2 is); models are still replayed with the real log2 before anything is reported",
    "NOT DECIDED (out of reach, DESIGN section 8): that the documented formulas THEMSELVES meet the accuracy clauses for every request (needs the values of ln / log2 / exp: only evaluated at replayed models), and symbolic est_elements (binary64 divide/round over two symbolic operands: unknown after 120 s)",
]
BOUNDS = {
    "quick": "(a) all binary64 rates, est in {1, 10}, path cut at the call of ln (the value reaching ln is the obligation); (d) e in [2^-4, 1) by binade for the unsat half + the sat search for the F10 class on (1.52513e-5, 1.52514e-5); (f) all m < 2^32",
    "thorough": "(d) binades down to 2^-7 (10 min cap per binade), F10 class searched on (1e-6, 1)",
    "outside": "e < 2^-4 (2^-7) for the unsat half of (d); every clause listed as NOT DECIDED",
}
EXPECT_LABELS = {"quick": ["rate-is-float32-fixed-point", "reload-same-geometry", "cms-width-honours-error-rate", "bloom-length-is-ceil-bits/8",
                           "export-size", "bloom-size-is-documented-formula", "cms-depth-is-documented-formula", "cuckoo-bits-is-documented-formula"]}


def _install_bloom(ctx):
    from .. import fp
    bm = env.mod("bloom")
    ctx.patch(bm, "float", fp.FloatShim)
    ctx.patch(bm, "int", fp.IntShim)
    ctx.patch(bm, "math", fp.MathUF())
    ctx.patch(bm.BloomFilter, "_FPR_STRUCT", fp.FStruct())


class _Cut(Exception):
    """raised by the math.log stub: the obligation is about the value that reaches ln(); the rest of the path (binary64
    divide/round over symbolic operands) is what z3 does not decide and is cut - a recorded cut (DESIGN 7/C07)"""


def narrowing(ctx, cfg):
    from probables import BloomFilter
    from probables.exceptions import InitializationError
    est = cfg["est"]
    if ctx.sym:
        import z3
        from .. import fp
        _install_bloom(ctx)
        seen = []

        class _M(fp.MathUF):
            def log(self, x):
                seen.append(x)
                raise _Cut()
        ctx.patch(env.mod("bloom"), "math", _M())
        p = ctx.fp("p")
        try:
            BloomFilter._get_optimized_params(est, p)
        except InitializationError:
            ctx.reach("rejected")
            return
        except _Cut:
            pass
        ctx.reach("accepted")
        t = seen[-1]
        ctx.check(z3.fpEQ(t.t, z3.fpToFP(fp.RNE, z3.fpToFP(fp.RNE, p.t, fp.F32), fp.D)), "rate-is-narrowed-request")
        ctx.check(z3.fpEQ(t.t, z3.fpToFP(fp.RNE, z3.fpToFP(fp.RNE, t.t, fp.F32), fp.D)), "rate-is-float32-fixed-point")
        # a stored rate of exactly 1.0f cannot occur: ln 1 = 0 gives zero hashes (rejected); nor can 0.0f (a request that narrows to
        # zero ends in ln 0 = ValueError in the constructor)
        if ctx.fork(z3.And(z3.fpLT(t.t, z3.FPVal(1.0, fp.D)), z3.fpGT(t.t, z3.FPVal(0.0, fp.D)))):
            try:
                class _Footer:      # a footer whose fields are (est, 0, the stored binary32 rate): the REAL _parse_footer runs on it
                    size = 20

                    def unpack_from(self, d, offset=0):
                        return (est, 0, t)
                BloomFilter._parse_footer(_Footer(), b"")       # every reload goes through here (round 5: a floor applied to the stored rate)
                ctx.check(False, "reload-reaches-ln")
            except InitializationError:
                ctx.check(False, "reload-same-geometry")
                return
            except _Cut:
                pass
            # same (est, ln argument) => same geometry, the remaining computation being a pure function of the two
            ctx.check(z3.fpEQ(fp.SF.lift(seen[-1]), t.t), "reload-same-geometry")   # (a plain float reaches ln when the code substitutes a constant)
    else:
        import struct
        p = ctx.fp("p")
        try:
            t, k, m = BloomFilter._get_optimized_params(est, p)
        except (InitializationError, ValueError, OverflowError):
            return
        n32 = struct.unpack("f", struct.pack("f", t))[0]
        ctx.check(n32 == t, "rate-is-float32-fixed-point")
        ctx.check(struct.unpack("f", struct.pack("f", p))[0] == t, "rate-is-narrowed-request")
        ctx.check(BloomFilter._get_optimized_params(est, t) == (t, k, m), "reload-same-geometry")
        foot = BloomFilter._FOOTER_STRUCT.pack(est, 0, t)
        ctx.check(BloomFilter._parse_footer(BloomFilter._FOOTER_STRUCT, foot) == (est, 0, t, k, m), "reload-same-geometry")


def cms_width(ctx, cfg):
    from probables import CountMinSketch
    from probables.exceptions import InitializationError
    lo, hi = cfg["lo"], cfg["hi"]
    if ctx.sym:
        import z3
        from .. import fp
        cm = env.mod("cms")
        ctx.patch(cm, "math", fp.MathUF())

        class _Arr:
            def __init__(self, *a):
                pass

            def __mul__(self, n):
                return self
        ctx.patch(cm, "array", _Arr)
        e = ctx.fp("e")
        ctx.assume(z3.And(z3.fpGEQ(e.t, z3.FPVal(lo, fp.D)), z3.fpLT(e.t, z3.FPVal(hi, fp.D))))
        c = CountMinSketch(confidence=0.5, error_rate=e)
        w = c.width
        quot = z3.fpDiv(fp.RNE, z3.FPVal(2.0, fp.D), e.t)
        integral = ctx.fork(z3.fpEQ(z3.fpRoundToIntegral(fp.RTZ if hasattr(fp, "RTZ") else z3.RTZ(), quot), quot))
        if cfg["half"] == "integral" and not integral or cfg["half"] == "non-integral" and integral:
            return
        ctx.check(w.t == z3.fpToSBV(z3.RTP(), quot, z3.BitVecSort(64)), "cms-width-is-ceil(2/e)")
        ok = z3.fpLEQ(z3.fpDiv(fp.RNE, z3.FPVal(2.0, fp.D), z3.fpSignedToFP(fp.RNE, w.t, fp.D)), e.t)
        ctx.check(ok, "cms-width-honours-error-rate" + (":rounded-quotient-integral" if integral else ""))
    else:
        import math
        e = ctx.fp("e")
        if not (lo <= e < hi):
            return
        c = CountMinSketch(confidence=0.5, error_rate=e)
        integral = (2 / e) == math.floor(2 / e)
        if cfg["half"] == "integral" and not integral or cfg["half"] == "non-integral" and integral:
            return
        ctx.check(c.width == math.ceil(2 / e), "cms-width-is-ceil(2/e)")
        ctx.check(2 / c.width <= e, "cms-width-honours-error-rate" + (":rounded-quotient-integral" if integral else ""))


def lengths(ctx, cfg):
    from probables import BloomFilter, CountingBloomFilter
    if ctx.sym:
        import z3
        from .. import fp
        _install_bloom(ctx)
        mv = z3.BitVec("m", 64)
        ctx.inputs["m"] = mv
        ctx.solver.add(mv >= 1, mv < 2 ** 32)
        bf = BloomFilter(10, 0.05)
        bf._set_values(10, 0.05, 4, fp.SI(mv), None)
        L = bf.bloom_length
        ctx.check(L.t == z3.LShR(mv + 7, 3), "bloom-length-is-ceil-bits/8")
        ctx.check((bf.export_size()).t == L.t + 20, "export-size")
    else:
        m = ctx.int("m", 1, 2 ** 32 - 1)
        bf = BloomFilter(10, 0.05)
        bf._set_values(10, 0.05, 4, m, None)
        ctx.check(bf.bloom_length == (m + 7) // 8, "bloom-length-is-ceil-bits/8")
        ctx.check(bf.export_size() == bf.bloom_length + 20, "export-size")
    for est, fpr in [(1, .5), (3, .2), (10, .05), (100, .001)]:
        b, c = BloomFilter(est, fpr), CountingBloomFilter(est, fpr)
        ctx.check(b.export_size() == (b.number_bits + 7) // 8 + 20 and c.export_size() == 4 * c.number_bits + 20 and
                  c.bloom_length == c.number_bits, "export-size")


# ---- formula-structure clauses: executed sizing formula == documented formula over uninterpreted ln / log2 ------------------
def _bloom_oracle(est, p):
    """the property's Bloom clause evaluated with the real math functions at a concrete accepted request"""
    import math
    import struct
    from probables import BloomFilter
    from probables.exceptions import InitializationError
    try:
        t, k, m = BloomFilter._get_optimized_params(est, p)
    except (InitializationError, ValueError, OverflowError, ZeroDivisionError):
        return False        # not an accepted request
    p32 = struct.unpack("f", struct.pack("f", p))[0]
    if p32 <= 0.0 or p32 >= 1.0:
        return False
    y = -est * math.log(p32) / 0.4804530139182
    x = 0.6931471805599453 * m / est

    def near(v, grid):      # within rounding noise of a tie / an integer: either neighbour is acceptable
        return abs(v - grid) < 1e-9 * max(1.0, abs(v))
    ok_m = m == math.ceil(y) or (near(y, round(y)) and abs(m - round(y)) <= 1)
    ok_k = k == round(x) or (near(x - math.floor(x), 0.5) and abs(k - round(x)) <= 1)
    if t != p32 or not ok_m or not ok_k or k < 1:
        return True
    fp_rate = (1 - math.exp(-k * est / m)) ** k
    return fp_rate > 1.07 * p32 * (1 + 1e-9)


def bloom_formula(ctx, cfg):
    from probables import BloomFilter
    from probables.exceptions import InitializationError
    est = cfg["est"]
    if not ctx.sym:
        ctx.check(not _bloom_oracle(est, ctx.fp("p")), "bloom-size-is-documented-formula")
        return
    import z3
    from .. import fp
    from ..fpstats import uf_check
    install = lambda: _install_bloom(ctx)  # noqa: E731
    install()
    p = ctx.fp("p")
    ctx.assume(z3.And(z3.fpGT(p.t, z3.FPVal(1e-30, fp.D)), z3.fpLT(p.t, z3.FPVal(1.0, fp.D))))
    try:
        t, k, m = BloomFilter._get_optimized_params(est, p)
    except InitializationError:
        ctx.reach("rejected")
        return
    D, RNE = fp.D, fp.RNE
    n = z3.FPVal(float(est), D)
    t32 = z3.fpToFP(RNE, z3.fpToFP(RNE, p.t, fp.F32), D)
    # documented: m = ceil(-n ln p32 / ln^2 2), k = round(ln 2 * m / n)   (ln^2 2 and ln 2 as the published constants)
    m_ref = z3.fpToSBV(z3.RTP(), z3.fpDiv(RNE, z3.fpMul(RNE, z3.FPVal(float(-est), D), fp.LOG(t32)), z3.FPVal(0.4804530139182, D)), z3.BitVecSort(64))
    k_ref = z3.fpToSBV(RNE, z3.fpRoundToIntegral(RNE, z3.fpDiv(RNE, z3.fpMul(RNE, z3.FPVal(0.6931471805599453, D), z3.fpSignedToFP(RNE, m_ref, D)), n)),
                       z3.BitVecSort(64))
    uf_check(ctx, z3.And(m.t == m_ref, k.t == k_ref, t.t == t32), "bloom-size-is-documented-formula", {"p": p.t},
             lambda v: _bloom_oracle(est, v["p"]), install,
             regions=[z3.And(z3.fpGT(p.t, z3.FPVal(lo, D)), z3.fpLT(p.t, z3.FPVal(hi, D)))
                      for lo, hi in ((0.04, 0.06), (0.85, 0.95), (0.10, 0.13), (0.3, 0.35), (0.005, 0.006), (0.6, 0.7), (0.02, 0.025), (0.45, 0.5))])


def _depth_oracle(c):
    from probables import CountMinSketch
    if not 0.0 < c < 1.0:
        return False
    s = CountMinSketch(confidence=c, error_rate=0.5)
    return s.depth < 1 or 1 - 2.0 ** -s.depth < c * (1 - 1e-12)


def cms_depth(ctx, cfg):
    from probables import CountMinSketch
    if not ctx.sym:
        ctx.check(not _depth_oracle(ctx.fp("c")), "cms-depth-is-documented-formula")
        return
    import z3
    from .. import fp
    from ..fpstats import uf_check
    cm = env.mod("cms")

    class _Arr:
        def __init__(self, *a):
            pass

        def __mul__(self, n):
            return self

    def install():
        ctx.patch(cm, "math", fp.MathUF())
        ctx.patch(cm, "array", _Arr)
    install()
    c = ctx.fp("c")
    ctx.assume(z3.And(z3.fpGT(c.t, z3.FPVal(1e-9, fp.D)), z3.fpLT(c.t, z3.FPVal(0.999999, fp.D))))
    s = CountMinSketch(confidence=c, error_rate=0.5)
    D, RNE = fp.D, fp.RNE
    # documented: depth = ceil(-ln(1 - c) / ln 2)
    ref = z3.fpToSBV(z3.RTP(), z3.fpDiv(RNE, z3.fpMul(RNE, z3.FPVal(-1.0, D), fp.LOG(z3.fpSub(RNE, z3.FPVal(1.0, D), c.t))), z3.FPVal(0.6931471805599453, D)),
                     z3.BitVecSort(64))
    d = s.depth
    uf_check(ctx, (d.t if isinstance(d, fp.SI) else z3.BitVecVal(int(d), 64)) == ref, "cms-depth-is-documented-formula", {"c": c.t},
             lambda v: _depth_oracle(v["c"]), install)


def _finger_oracle(b, e):
    from probables import CuckooFilter
    if not 2.0 ** -31 < e < 0.5:
        return False
    f = CuckooFilter.init_error_rate(e, capacity=4, bucket_size=b)
    bits = f.fingerprint_size_bits
    return bits < 1 or 2 * b / 2.0 ** bits > e * (1 + 1e-12)


def cuckoo_bits(ctx, cfg):
    from probables import CuckooFilter
    b = cfg["bucket"]
    if not ctx.sym:
        ctx.check(not _finger_oracle(b, ctx.fp("e")), "cuckoo-bits-is-documented-formula")
        return
    import math
    import z3
    from .. import fp
    from ..fpstats import uf_check
    ck = env.mod("cuckoo")

    def install():
        ctx.patch(ck, "math", fp.MathUF())
        ctx.patch(ck, "int", fp.IntShim)
    install()
    e = ctx.fp("e")
    ctx.assume(z3.And(z3.fpGT(e.t, z3.FPVal(2.0 ** -31, fp.D)), z3.fpLT(e.t, z3.FPVal(0.5, fp.D))))
    D, RNE = fp.D, fp.RNE
    # log2 stays uninterpreted except for what every libm guarantees at the integer breakpoints: it is monotone and exact at
    # powers of two, so x >= 2^k -> log2(x) >= k and x <= 2^k -> log2(x) <= k (k = 0..32) for the one application 1/e
    x = z3.fpDiv(RNE, z3.FPVal(1.0, D), e.t)
    ctx.assume(z3.And([z3.And(z3.Implies(z3.fpGEQ(x, z3.FPVal(2.0 ** k, D)), z3.fpGEQ(fp.LOG2(x), z3.FPVal(float(k), D))),
                              z3.Implies(z3.fpLEQ(x, z3.FPVal(2.0 ** k, D)), z3.fpLEQ(fp.LOG2(x), z3.FPVal(float(k), D)))) for k in range(0, 33)]))
    f = CuckooFilter(capacity=4, bucket_size=b)
    f._set_error_rate(e)
    # documented: bits = ceil(log2(1/e) + log2(bucket_size) + 1)
    ref = z3.fpToSBV(z3.RTP(), z3.fpAdd(RNE, z3.fpAdd(RNE, fp.LOG2(z3.fpDiv(RNE, z3.FPVal(1.0, D), e.t)), z3.FPVal(math.log2(b), D)), z3.FPVal(1.0, D)),
                     z3.BitVecSort(64))
    bits = f.fingerprint_size_bits
    uf_check(ctx, (bits.t if isinstance(bits, fp.SI) else z3.BitVecVal(int(bits), 64)) == ref, "cuckoo-bits-is-documented-formula", {"e": e.t},
             lambda v: _finger_oracle(b, v["e"]), install,
             regions=[z3.And(z3.fpGT(e.t, z3.FPVal(lo, D)), z3.fpLT(e.t, z3.FPVal(hi, D)))
                      for lo, hi in ((2.0 ** -31, 2.0 ** -28), (2.0 ** -28, 2.0 ** -20), (1e-4, 1e-3), (0.009, 0.011), (0.1, 0.3))])


def cuckoo_reload(ctx, cfg):
    """a cuckoo filter sized by error rate keeps its fingerprint width (hence its error bound) across export -> load on both channels"""
    from . import c05
    return c05.roundtrip(ctx, cfg)


HARNESS = {"c07.cuckoo_reload": cuckoo_reload, "c07.narrowing": narrowing, "c07.cms_width": cms_width, "c07.lengths": lengths, "c07.bloom_formula": bloom_formula,
           "c07.cms_depth": cms_depth, "c07.cuckoo_bits": cuckoo_bits}


def jobs(tier):
    js = [{"h": "c07.lengths", "cfg": {}, "opts": {"timeout_ms": 300000, "witnesses": 1}}]
    for est in (1, 10):
        js.append({"h": "c07.narrowing", "cfg": {"est": est}, "opts": {"timeout_ms": 300000, "retry_ms": 0, "witnesses": 1, "cost": 50}})
    lazy = {"timeout_ms": 120000, "retry_ms": 0, "no_witness": True, "assume_feasible": True, "cost": 5}
    for est in (1, 10, 1000):
        js.append({"h": "c07.bloom_formula", "cfg": {"est": est}, "opts": lazy})
    js.append({"h": "c07.cms_depth", "cfg": {}, "opts": lazy})
    for b in (1, 2, 3, 4, 5, 7):
        js.append({"h": "c07.cuckoo_bits", "cfg": {"bucket": b}, "opts": lazy})
    for counting in (False, True):
        for bsz in (1, 2, 3, 8):
            js.append({"h": "c07.cuckoo_reload", "cfg": {"kind": "ccuckoo" if counting else "cuckoo", "cap": 2, "bsz": bsz, "swaps": 3, "auto": True,
                                                          "occ": [1, 0], "counting": counting, "channel": "bytes", "rate": 0.01},
                       "opts": {"index_concretize_limit": 8, "witnesses": 1}})
    maxj = 4 if tier == "quick" else 7
    for j in range(1, maxj + 1):
        js.append({"h": "c07.cms_width", "cfg": {"lo": 2.0 ** -j, "hi": 2.0 ** -(j - 1), "half": "non-integral"},
                   "opts": {"timeout_ms": 600000, "retry_ms": 0, "witnesses": 1, "cost": 100 * j, "max_seconds": 3000}})
    # the sat search that (re)finds F10: e anywhere in (1e-6, 1) with an integral rounded quotient
    lo, hi = (1.52513e-05, 1.52514e-05) if tier == "quick" else (1e-6, 1.0)
    js.append({"h": "c07.cms_width", "cfg": {"lo": lo, "hi": hi, "half": "integral"},
               "opts": {"timeout_ms": 600000, "retry_ms": 0, "witnesses": 0, "cost": 1000, "max_seconds": 3000}})
    return js
