"""C07 - derived sizes honour the requested accuracy and are stable across reloads.  Shape (K), floating point: the real sizing
code runs over IEEE binary64/binary32 proxies (QF_FP).  PARTIAL: only the clauses listed in BOUNDS are decided (DESIGN 7/C07)."""
from .. import env

PROPERTY = "C07"
CROSS_CHECK = True      # thorough: dumped assertion queries are re-decided by z3 4.8.12 and cvc5 1.0
LEVEL = "model_checking"
TECHNIQUE = "symbolic execution of the real sizing code over IEEE-754 proxies (z3 QF_FP / QF_BV); per-binade unsat for the count-min width clause; ln/log2/exp uninterpreted"
STUBS = ["float/int/math/_FPR_STRUCT in probables.blooms.bloom -> binary64/binary32 proxies, math.log uninterpreted",
         "math/array in probables.countminsketch -> proxies (the counter array is not allocated for a symbolic width)"]
ASSUMPTIONS = [
    "DECIDED: (a) the rate a Bloom filter stores is the binary32 narrowing of the request and a fixed point of that narrowing, and re-deriving the geometry from (est, stored rate) - what every reload does - returns the same (rate, hashes, bits), for EVERY binary64 rate the constructor accepts (est 1 and 10; ln uninterpreted, i.e. any pure function)",
    "DECIDED: (d) count-min width = ceil(2/e) gives 2/width <= e as Python evaluates it, for all binary64 e in the stated binades, EXCEPT the class where the rounded quotient 2/e is itself an integer (known finding F10: there the check 2/width <= e fails by one ulp)",
    "DECIDED: (f) bloom_length = ceil(number_bits / 8.0) equals (m + 7) div 8 and export_size = bloom_length + 20 for every m < 2^32; counting Bloom 4*m + 20",
    "NOT DECIDED (out of reach, DESIGN section 8): the 7% false-positive allowance, number_hashes >= 1 and 'executed formula = documented formula' for symbolic est (binary64 divide/round over two symbolic operands: unknown after 120 s), 1 - 2^-depth >= confidence and the cuckoo bound (need the values of ln / log2)",
]
BOUNDS = {
    "quick": "(a) all binary64 rates, est in {1, 10}, path cut at the call of ln (the value reaching ln is the obligation); (d) e in [2^-4, 1) by binade for the unsat half + the sat search for the F10 class on (1.5e-5, 1.6e-5); (f) all m < 2^32",
    "thorough": "(d) binades down to 2^-7 (10 min cap per binade), F10 class searched on (1e-6, 1)",
    "outside": "e < 2^-4 (2^-7) for the unsat half of (d); every clause listed as NOT DECIDED",
}
EXPECT_LABELS = {"quick": ["rate-is-float32-fixed-point", "reload-same-geometry", "cms-width-honours-error-rate", "bloom-length-is-ceil-bits/8",
                           "export-size"]}


def _install_bloom(ctx):
    from .. import fp
    bm = env.mod("bloom")
    ctx.patch(bm, "float", fp.FloatShim)
    ctx.patch(bm, "int", fp.IntShim)
    ctx.patch(bm, "math", fp.MathUF())
    ctx.patch(bm.BloomFilter, "_FPR_STRUCT", fp.FStruct())


class _Cut(Exception):
    """raised by the math.log stub: the obligation is about the value that reaches ln(); the rest of the path (binary64
    divide/round over symbolic operands) is what z3 does not decide and is cut - a recorded cut (DESIGN 7/C07)"""


def narrowing(ctx, cfg):
    from probables import BloomFilter
    from probables.exceptions import InitializationError
    est = cfg["est"]
    if ctx.sym:
        import z3
        from .. import fp
        _install_bloom(ctx)
        seen = []

        class _M(fp.MathUF):
            def log(self, x):
                seen.append(x)
                raise _Cut()
        ctx.patch(env.mod("bloom"), "math", _M())
        p = ctx.fp("p")
        try:
            BloomFilter._get_optimized_params(est, p)
        except InitializationError:
            ctx.reach("rejected")
            return
        except _Cut:
            pass
        ctx.reach("accepted")
        t = seen[-1]
        ctx.check(z3.fpEQ(t.t, z3.fpToFP(fp.RNE, z3.fpToFP(fp.RNE, p.t, fp.F32), fp.D)), "rate-is-narrowed-request")
        ctx.check(z3.fpEQ(t.t, z3.fpToFP(fp.RNE, z3.fpToFP(fp.RNE, t.t, fp.F32), fp.D)), "rate-is-float32-fixed-point")
        if ctx.fork(z3.fpLT(t.t, z3.FPVal(1.0, fp.D))):       # a stored rate of exactly 1.0f cannot occur: ln 1 = 0 gives zero hashes (rejected)
            try:
                BloomFilter._get_optimized_params(est, t)      # what _parse_footer does on every reload
                ctx.check(False, "reload-reaches-ln")
            except InitializationError:
                ctx.check(False, "reload-same-geometry")
                return
            except _Cut:
                pass
            # same (est, ln argument) => same geometry, the remaining computation being a pure function of the two
            ctx.check(z3.fpEQ(seen[-1].t, t.t), "reload-same-geometry")
    else:
        import struct
        p = ctx.fp("p")
        try:
            t, k, m = BloomFilter._get_optimized_params(est, p)
        except (InitializationError, ValueError, OverflowError):
            return
        n32 = struct.unpack("f", struct.pack("f", t))[0]
        ctx.check(n32 == t, "rate-is-float32-fixed-point")
        ctx.check(struct.unpack("f", struct.pack("f", p))[0] == t, "rate-is-narrowed-request")
        ctx.check(BloomFilter._get_optimized_params(est, t) == (t, k, m), "reload-same-geometry")


def cms_width(ctx, cfg):
    from probables import CountMinSketch
    from probables.exceptions import InitializationError
    lo, hi = cfg["lo"], cfg["hi"]
    if ctx.sym:
        import z3
        from .. import fp
        cm = env.mod("cms")
        ctx.patch(cm, "math", fp.MathUF())

        class _Arr:
            def __init__(self, *a):
                pass

            def __mul__(self, n):
                return self
        ctx.patch(cm, "array", _Arr)
        e = ctx.fp("e")
        ctx.assume(z3.And(z3.fpGEQ(e.t, z3.FPVal(lo, fp.D)), z3.fpLT(e.t, z3.FPVal(hi, fp.D))))
        c = CountMinSketch(confidence=0.5, error_rate=e)
        w = c.width
        quot = z3.fpDiv(fp.RNE, z3.FPVal(2.0, fp.D), e.t)
        integral = ctx.fork(z3.fpEQ(z3.fpRoundToIntegral(fp.RTZ if hasattr(fp, "RTZ") else z3.RTZ(), quot), quot))
        if cfg["half"] == "integral" and not integral or cfg["half"] == "non-integral" and integral:
            return
        ctx.check(w.t == z3.fpToSBV(z3.RTP(), quot, z3.BitVecSort(64)), "cms-width-is-ceil(2/e)")
        ok = z3.fpLEQ(z3.fpDiv(fp.RNE, z3.FPVal(2.0, fp.D), z3.fpSignedToFP(fp.RNE, w.t, fp.D)), e.t)
        ctx.check(ok, "cms-width-honours-error-rate" + (":rounded-quotient-integral" if integral else ""))
    else:
        import math
        e = ctx.fp("e")
        if not (lo <= e < hi):
            return
        c = CountMinSketch(confidence=0.5, error_rate=e)
        integral = (2 / e) == math.floor(2 / e)
        ctx.check(c.width == math.ceil(2 / e), "cms-width-is-ceil(2/e)")
        ctx.check(2 / c.width <= e, "cms-width-honours-error-rate" + (":rounded-quotient-integral" if integral else ""))


def lengths(ctx, cfg):
    from probables import BloomFilter, CountingBloomFilter
    if ctx.sym:
        import z3
        from .. import fp
        _install_bloom(ctx)
        mv = z3.BitVec("m", 64)
        ctx.inputs["m"] = mv
        ctx.solver.add(mv >= 1, mv < 2 ** 32)
        bf = BloomFilter(10, 0.05)
        bf._set_values(10, 0.05, 4, fp.SI(mv), None)
        L = bf.bloom_length
        ctx.check(L.t == z3.LShR(mv + 7, 3), "bloom-length-is-ceil-bits/8")
        ctx.check((bf.export_size()).t == L.t + 20, "export-size")
    else:
        m = ctx.int("m", 1, 2 ** 32 - 1)
        bf = BloomFilter(10, 0.05)
        bf._set_values(10, 0.05, 4, m, None)
        ctx.check(bf.bloom_length == (m + 7) // 8, "bloom-length-is-ceil-bits/8")
        ctx.check(bf.export_size() == bf.bloom_length + 20, "export-size")
    for est, fpr in [(1, .5), (3, .2), (10, .05), (100, .001)]:
        b, c = BloomFilter(est, fpr), CountingBloomFilter(est, fpr)
        ctx.check(b.export_size() == (b.number_bits + 7) // 8 + 20 and c.export_size() == 4 * c.number_bits + 20 and
                  c.bloom_length == c.number_bits, "export-size")


HARNESS = {"c07.narrowing": narrowing, "c07.cms_width": cms_width, "c07.lengths": lengths}


def jobs(tier):
    js = [{"h": "c07.lengths", "cfg": {}, "opts": {"timeout_ms": 300000, "witnesses": 1}}]
    for est in (1, 10):
        js.append({"h": "c07.narrowing", "cfg": {"est": est}, "opts": {"timeout_ms": 300000, "retry_ms": 0, "witnesses": 1, "cost": 50}})
    maxj = 4 if tier == "quick" else 7
    for j in range(1, maxj + 1):
        js.append({"h": "c07.cms_width", "cfg": {"lo": 2.0 ** -j, "hi": 2.0 ** -(j - 1), "half": "non-integral"},
                   "opts": {"timeout_ms": 600000, "retry_ms": 0, "witnesses": 1, "cost": 100 * j, "max_seconds": 3000}})
    # the sat search that (re)finds F10: e anywhere in (1e-6, 1) with an integral rounded quotient
    lo, hi = (1.5e-05, 1.6e-05) if tier == "quick" else (1e-6, 1.0)
    js.append({"h": "c07.cms_width", "cfg": {"lo": lo, "hi": hi, "half": "integral"},
               "opts": {"timeout_ms": 600000, "retry_ms": 0, "witnesses": 0, "cost": 1000, "max_seconds": 3000}})
    return js
