"""C13 - intersection, Jaccard index and operand compatibility rules.  State-level: both operands entirely symbolic."""
from .. import env
from .c01 import sym_bloom, bits_of, hv
from .c12 import FIXED, stub_estimate, cms_join_raw

PROPERTY = "C13"
CROSS_CHECK = True      # thorough: dumped assertion queries are re-decided by z3 4.8.12 and cvc5 1.0
LEVEL = "model_checking"
STUBS = ["array -> SymArray", "bin(x).count('1') -> popcount over the bit view", "int / int -> exact ratio (numerator, denominator)",
         "BloomFilter.estimate_elements -> 0 in symbolic mode (C14)"]
ASSUMPTIONS = [
    "both operands arbitrary (bit arrays / counter arrays), same geometry for the algebraic clauses",
    "'in [0,1]' (positions in both <= positions in either) is decided for geometries up to 16 bits only; above that it follows from 'jaccard-is-ratio' by a per-position argument that is not given to the solver",
    "the Jaccard value is compared as the exact pair (positions set in both, positions set in either); the float rounding of the final division is not modelled",
    "compatibility rules are exercised on concrete geometry pairs and hash strategies (no symbolic content needed)",
]
BOUNDS = {
    "quick": "Bloom geometries 1, 2, 3, 6, 7, 8, 11, 13, 16 and 63 bits; counting Bloom 2 and 3 cells; rule matrix over 3 geometries x 3 strategies x foreign types",
    "thorough": "adds 34-bit and 39-bit Bloom geometries, counting Bloom 6 cells (counters below 2^30 there; the full 32-bit range on 2 and 3 cells)",
    "outside": "larger geometries; mixing a counting with a plain Bloom filter (outside the claim)",
}
EXPECT_LABELS = {"quick": ["intersection-is-and", "intersection-reports-common-keys", "jaccard-is-ratio", "jaccard-symmetric", "jaccard-in-0-1",
                           "jaccard-identical-is-1", "operands-unchanged", "rule-geometry-none", "rule-foreign-typeerror", "rule-join-raises",
                           "cbf-jaccard-is-ratio", "rule-different-hash", "cbf-intersection-positions", "join-does-not-alias"]}


def bloom(ctx, cfg):
    env.setup(ctx, "bloom")
    a = sym_bloom(ctx, cfg["est"], cfg["fpr"], "a.", FIXED)
    b = sym_bloom(ctx, cfg["est"], cfg["fpr"], "b.", FIXED)
    k, m = a.number_hashes, a.number_bits
    pa, pb, ca, cb = bits_of(ctx, a), bits_of(ctx, b), a.elements_added, b.elements_added
    key = hv(ctx, "key", k, m)
    both = a.check_alt(key) and b.check_alt(key)
    stub_estimate(ctx)
    r = a.intersection(b)
    ctx.check(r is not None and r is not a and r is not b and r.number_bits == m and r.number_hashes == k, "intersection-new-object")
    ctx.check(ctx.and_([ctx.iff(z, ctx.and_(x, y)) for z, x, y in zip(bits_of(ctx, r), pa, pb)]), "intersection-is-and")
    if both:
        ctx.check(r.check_alt(key) is True, "intersection-reports-common-keys")
    ctx.check(r.hashes("some key") == a.hashes("some key"), "intersection-keeps-strategy")
    n_int = ctx.sum([ctx.ite(ctx.and_(x, y), 1, 0) for x, y in zip(pa, pb)])
    n_uni = ctx.sum([ctx.ite(ctx.or_(x, y), 1, 0) for x, y in zip(pa, pb)])
    j = a.jaccard_index(b)
    j2 = b.jaccard_index(a)
    if ctx.fork(ctx.eq(n_uni, 0)):
        ctx.check(j == 1.0 and j2 == 1.0, "jaccard-empty-is-1")
    else:
        ctx.check(ctx.ratio_is(j, n_int, n_uni), "jaccard-is-ratio")
        ctx.check(ctx.ratio_is(j2, n_int, n_uni), "jaccard-symmetric")
        if m <= 16:     # a pseudo-Boolean inequality over 2m terms: z3's LIA does not close it for 63 bits (measured: > 10 min)
            ctx.check(ctx.and_(ctx.ge(n_int, 0), ctx.le(n_int, n_uni)), "jaccard-in-0-1")
    js = a.jaccard_index(a)
    n_a = ctx.sum([ctx.ite(x, 1, 0) for x in pa])
    ctx.check(js == 1.0 if ctx.fork(ctx.eq(n_a, 0)) else ctx.ratio_is(js, n_a, n_a), "jaccard-identical-is-1")
    ctx.check(ctx.and_([ctx.iff(x, y) for x, y in zip(pa + pb, bits_of(ctx, a) + bits_of(ctx, b))] +
                       [ctx.eq(ca, a.elements_added), ctx.eq(cb, b.elements_added)]), "operands-unchanged")


def cbf(ctx, cfg):
    env.setup(ctx, "bloom", "countingbloom")
    from probables import CountingBloomFilter
    a = CountingBloomFilter(cfg["est"], cfg["fpr"], hash_function=FIXED)
    b = CountingBloomFilter(cfg["est"], cfg["fpr"], hash_function=FIXED)
    m, k = a.number_bits, a.number_hashes
    for j in range(m):
        a._bloom[j] = ctx.int(f"a{j}", 0, cfg.get("cmax", 2 ** 32 - 1))       # every value a cell can hold (sums reach and pass 2^32)
        b._bloom[j] = ctx.int(f"b{j}", 0, cfg.get("cmax", 2 ** 32 - 1))
    pa, pb = env.cells(a._bloom), env.cells(b._bloom)
    stub_estimate(ctx)
    r = a.intersection(b)
    ctx.check(r is not None and r is not a and r is not b, "intersection-new-object")
    post = env.cells(r._bloom)
    ctx.check(ctx.and_([ctx.iff(ctx.gt(z, 0), ctx.and_(ctx.gt(x, 0), ctx.gt(y, 0))) for z, x, y in zip(post, pa, pb)]), "cbf-intersection-positions")
    key = [ctx.hashval(f"key{i}", m) for i in range(k)]
    if a.check_alt(key) > 0 and b.check_alt(key) > 0:
        ctx.check(r.check_alt(key) > 0, "intersection-reports-common-keys")
    n_int = ctx.sum([ctx.ite(ctx.and_(ctx.gt(x, 0), ctx.gt(y, 0)), 1, 0) for x, y in zip(pa, pb)])
    n_uni = ctx.sum([ctx.ite(ctx.or_(ctx.gt(x, 0), ctx.gt(y, 0)), 1, 0) for x, y in zip(pa, pb)])
    j, j2 = a.jaccard_index(b), b.jaccard_index(a)
    if ctx.fork(ctx.eq(n_uni, 0)):
        ctx.check(j == 1.0 and j2 == 1.0, "jaccard-empty-is-1")
    else:
        ctx.check(ctx.and_(ctx.ratio_is(j, n_int, n_uni), ctx.ratio_is(j2, n_int, n_uni)), "cbf-jaccard-is-ratio")
        ctx.check(ctx.le(n_int, n_uni), "jaccard-in-0-1")
    ctx.check(ctx.and_(ctx.all_eq(pa, env.cells(a._bloom)), ctx.all_eq(pb, env.cells(b._bloom))), "operands-unchanged")


def rules(ctx, cfg):
    """compatibility matrix (concrete): geometry / hash strategy / foreign types"""
    env.setup(ctx, "bloom", "countingbloom", "cms")
    from probables import BloomFilter, CountingBloomFilter, CountMinSketch
    from probables.exceptions import CountMinSketchError
    stub_estimate(ctx)
    hf_same = FIXED
    hf_other = lambda key, depth=1: [4, 6, 8, 10, 12, 14, 16, 18, 20, 22][:depth]  # noqa: E731
    hf_probe_only = lambda key, depth=1: (FIXED(key, depth) if key == "test" else [9, 9, 9, 9, 9, 9, 9, 9, 9, 9][:depth])  # noqa: E731
    hf_first_only = lambda key, depth=1: ([FIXED(key, 1)[0]] + [40, 42, 44, 46, 48, 50, 52, 54, 56])[:depth]  # noqa: E731  (agrees with hf_same on the first value only)
    for cls in (BloomFilter, CountingBloomFilter):
        a = cls(10, 0.05, hash_function=hf_same)
        a.add("x")
        snap = (list(a.bloom), a.elements_added)
        others = [cls(10, 0.1, hash_function=hf_same), cls(11, 0.05, hash_function=hf_same)]
        # every geometry on a small grid that differs from a's in bits or hashes - in particular same hashes and same byte
        # length but a different number of bits, and same bits but a different number of hashes
        seen = {(a.number_bits, a.number_hashes)}
        for est in range(8, 13):
            for p1000 in range(30, 80, 1):
                o = cls(est, p1000 / 1000, hash_function=hf_same)
                g = (o.number_bits, o.number_hashes)
                if g not in seen and (o.number_hashes == a.number_hashes or o.number_bits == a.number_bits or o.bloom_length == a.bloom_length):
                    seen.add(g)
                    others.append(o)
        for other in others:
            ctx.check(a.union(other) is None and a.intersection(other) is None and a.jaccard_index(other) is None, "rule-geometry-none")
            ctx.check(other.union(a) is None and other.intersection(a) is None and other.jaccard_index(a) is None, "rule-geometry-none")
        other = cls(10, 0.05, hash_function=hf_other)
        ctx.check(a.union(other) is None and a.intersection(other) is None and a.jaccard_index(other) is None, "rule-different-hash")
        other = cls(10, 0.05, hash_function=hf_first_only)
        ctx.check(a.union(other) is None and a.intersection(other) is None and a.jaccard_index(other) is None, "rule-different-hash")
        ctx.check(other.union(a) is None and other.intersection(a) is None and other.jaccard_index(a) is None, "rule-different-hash")
        ok = cls(10, 0.05, hash_function=hf_same)
        ctx.check(a.union(ok) is not None and a.intersection(ok) is not None and a.jaccard_index(ok) is not None, "rule-compatible-accepted")
        for foreign in (None, 5, "x", [1], CountMinSketch(width=3, depth=2)):
            for op in ("union", "intersection", "jaccard_index"):
                try:
                    getattr(a, op)(foreign)
                    good = False
                except TypeError:
                    good = True
                ctx.check(good, "rule-foreign-typeerror")
        ctx.check((list(a.bloom), a.elements_added) == snap, "operands-unchanged")
        # strategies that agree on the probe key "test" but differ elsewhere
        sneaky = cls(10, 0.05, hash_function=hf_probe_only)
        ctx.check(a.union(sneaky) is None and a.intersection(sneaky) is None and a.jaccard_index(sneaky) is None, "rule-different-hash-agreeing-on-probe")
    c = CountMinSketch(width=3, depth=2, hash_function=hf_same)
    c.add("x", 2)
    snap = (list(c._bins), c.elements_added)
    for other, exc in ((CountMinSketch(width=4, depth=2, hash_function=hf_same), CountMinSketchError),
                       (CountMinSketch(width=3, depth=3, hash_function=hf_same), CountMinSketchError),
                       (CountMinSketch(width=3, depth=2, hash_function=hf_other), CountMinSketchError),
                       (CountMinSketch(width=3, depth=2, hash_function=hf_first_only), CountMinSketchError),
                       (BloomFilter(10, 0.05), TypeError), (None, TypeError), (7, TypeError)):
        try:
            c.join(other)
            good = False
        except exc:
            good = True
        ctx.check(good, "rule-join-raises")
        ctx.check((list(c._bins), c.elements_added) == snap, "operands-unchanged")
    try:
        c.join(CountMinSketch(width=3, depth=2, hash_function=hf_probe_only))
        good = False
    except CountMinSketchError:
        good = True
    ctx.check(good, "rule-different-hash-agreeing-on-probe")


HARNESS = {"c13.bloom": bloom, "c13.cbf": cbf, "c13.rules": rules, "c12.cms_join_raw": cms_join_raw}


def jobs(tier):
    js = [{"h": "c13.rules", "cfg": {}, "opts": {"no_witness": True}}]
    for est, fpr in [(1, .9), (1, .5), (1, .3), (2, .3), (1, .05), (3, .28), (3, .2), (5, .3), (5, .22), (10, .05)] + ([(7, .1), (4, .01)] if tier == "thorough" else []):
        js.append({"h": "c13.bloom", "cfg": {"est": est, "fpr": fpr}, "opts": {"cost": est}})
    # every cell forks three ways in intersection() and again in jaccard_index(): 3 cells = 289 paths, 6 cells > 12 000
    for est, fpr in [(1, .5), (1, .3)] + ([(2, .3)] if tier == "thorough" else []):
        # 6 cells with the full counter range fork four ways per cell (> 98 000 paths, does not finish in 50 min): counters < 2^30 there
        cfg = {"est": est, "fpr": fpr} if est == 1 else {"est": est, "fpr": fpr, "cmax": 2 ** 30}
        js.append({"h": "c13.cbf", "cfg": cfg, "opts": {"cost": est * 1000, "max_seconds": 3000}})
    # 'no operation ever modifies an operand other than the receiver of join': the argument of join, also after a later change of the receiver
    for w, d in [(1, 1), (2, 2), (3, 2)]:
        js.append({"h": "c12.cms_join_raw", "cfg": {"w": w, "d": d}, "opts": {"cost": w * d * 10}})
    return js
