"""C20 - Bitarray behaves as a fixed-length vector of bits.  Shape (I): one operation from an arbitrary valid state."""
from .. import env

PROPERTY = "C20"
CROSS_CHECK = True      # thorough: dumped assertion queries are re-decided by z3 4.8.12 and cvc5 1.0
LEVEL = "model_checking"
STUBS = ["array -> SymArray('B')"]
ASSUMPTIONS = [
    "pre-state = arbitrary bytes with zero padding bits (the representation invariant; asserted again after every op and on the fresh object, so it is inductive)",
    "array.array('B') modelled by SymArray",
    "as_string / num_bits_set fork once per bit (2^size paths) and are therefore limited to the small sizes listed in bounds",
]
BOUNDS = {
    "quick": "sizes 1..24 for set/clear/assign/get/isset/clear-all with symbolic index in [-size-2, 2*size+2] and symbolic value in [-1,2]; sizes 1..6 for as_string/num_bits_set; constructor argument checks concrete; (H) histories of 2-3 operations (set/clear/assign/clear-all, symbolic indices and values) from the fresh object on sizes 1,2,3,5,8,9; pairs of consecutive operations (get/assign/set/check, both with arbitrary in- or out-of-range arguments) from an arbitrary state on sizes 1,3,8,9",
    "thorough": "sizes 1..48 for the one-step ops; operation pairs on sizes 1,2,3,7,8,9,16,17,24; sizes 1..10 for as_string/num_bits_set",
    "outside": "sizes above the listed ones (each size is one job; the byte/bit arithmetic is identical for larger sizes but not decided here)",
}
EXPECT_LABELS = {"quick": ["only-that-bit-changes", "read-last-written", "out-of-range-rejected", "bad-value-rejected",
                           "padding-stays-zero", "popcount", "string", "fresh-all-zero", "ctor-rejects", "history-popcount", "history-reads"]}


def _state(ctx, b):
    out = []
    for c in env.cells(b._bitarray):
        out += ctx.bitlist(c, 8)
    return out


def _sym_bitarray(ctx, size):
    env.setup(ctx, "utilities")
    from probables.utilities import Bitarray
    b = Bitarray(size)
    nb = b.size_bytes
    if ctx.sym:
        for j in range(nb):
            b._bitarray[j] = ctx.bits(f"byte{j}", 8)
    else:       # replay: the state is re-created through the public API (set_bit per set bit)
        want = [ctx.bits(f"byte{j}", 8) for j in range(nb)]
        for p in range(size):
            if (want[p // 8] >> (p % 8)) & 1:
                b.set_bit(p)
        ctx.assume(list(b._bitarray) == want)
    pre = _state(ctx, b)
    ctx.assume(ctx.and_([ctx.not_(p) for p in pre[size:]]))
    return b, pre


def step(ctx, cfg):
    size = cfg["size"]
    b, pre = _sym_bitarray(ctx, size)
    _one(ctx, b, pre, size, cfg["op"], "")


def two_steps(ctx, cfg):
    """two consecutive operations with unrelated arbitrary arguments (in range or not) from an arbitrary state: the second is
    judged exactly like the first, from the state the first one left - an accepted or REJECTED call must not change how the
    next call is validated (round 5: a slot remembered before the range check)"""
    size = cfg["size"]
    b, pre = _sym_bitarray(ctx, size)
    for n, op in enumerate(cfg["ops"]):
        _one(ctx, b, pre, size, op, str(n) if n else "")
        pre = _state(ctx, b)


def _one(ctx, b, pre, size, op, sfx):
    idx = ctx.int("idx" + sfx, -size - 2, 2 * size + 2)
    val = ctx.int("val" + sfx, -1, 2)
    exc = ret = None
    try:
        if op == "set":
            b.set_bit(idx)
        elif op == "clear":
            b.clear_bit(idx)
        elif op == "assign":
            b[idx] = val
        elif op == "get":
            ret = b[idx]
        elif op == "check":
            ret = b.check_bit(idx)
        elif op == "isset":
            ret = b.is_bit_set(idx)
    except (IndexError, ValueError) as e:
        exc = type(e).__name__
    post = _state(ctx, b)
    inrange = ctx.fork(ctx.and_(ctx.ge(idx, 0), ctx.lt(idx, size)))
    badval = op == "assign" and ctx.fork(ctx.or_(ctx.lt(val, 0), ctx.gt(val, 1)))
    if badval:
        ctx.check(exc == "ValueError", "bad-value-rejected")
    elif not inrange:
        ctx.check(exc == "IndexError", "out-of-range-rejected")
    else:
        ctx.check(exc is None, "in-range-accepted")
    if exc is not None or op in ("get", "check", "isset"):
        ctx.check(ctx.and_([ctx.iff(p, q) for p, q in zip(pre, post)]), "no-change")
    if exc is None:
        i = ctx.conc(idx)
        if op in ("get", "check", "isset"):
            if op == "isset":
                ctx.check(isinstance(ret, bool), "isset-returns-bool")
            else:
                ctx.check(ret in (0, 1) and not isinstance(ret, bool), "get-returns-0-or-1")
            ctx.check(ctx.iff(pre[i], bool(ret)), "read-last-written")
        else:
            newbit = True if op == "set" else False if op == "clear" else ctx.eq(val, 1)
            ctx.check(ctx.and_([ctx.iff(q, newbit) if j == i else ctx.iff(p, q) for j, (p, q) in enumerate(zip(pre, post))]),
                      "only-that-bit-changes")
            # reading back through the public API returns what was written
            ctx.check(ctx.iff(bool(b.check_bit(i)), newbit), "read-back")
        ctx.check(ctx.and_([ctx.not_(q) for q in post[size:]]), "padding-stays-zero")


def whole(ctx, cfg):
    """clear(), num_bits_set(), as_string() against the ghost list"""
    size, op = cfg["size"], cfg["op"]
    b, pre = _sym_bitarray(ctx, size)
    if op == "clear-all":
        b.clear()
        post = _state(ctx, b)
        ctx.check(ctx.and_([ctx.not_(q) for q in post]), "clear-all-zero")
        ctx.check(b.size == size, "size-kept")
    elif op == "popcount":
        n = b.num_bits_set()
        ctx.check(ctx.eq(n, ctx.sum([ctx.ite(p, 1, 0) for p in pre[:size]])), "popcount")
        ctx.check(ctx.and_([ctx.iff(p, q) for p, q in zip(pre, _state(ctx, b))]), "no-change")
    elif op == "string":
        s = b.as_string()
        ctx.check(len(s) == size and set(s) <= {"0", "1"}, "string-shape")
        ctx.check(ctx.and_([ctx.iff(p, ch == "1") for p, ch in zip(pre[:size], s)]), "string")
        ctx.check(ctx.and_([ctx.iff(p, q) for p, q in zip(pre, _state(ctx, b))]), "no-change")


def fresh(ctx, cfg):
    """base case + constructor argument checks (concrete)"""
    size = cfg["size"]
    env.setup(ctx, "utilities")
    from probables.utilities import Bitarray
    b = Bitarray(size)
    ctx.check(b.size == size and b.size_bytes == (size + 7) // 8 and len(b.bitarray) == b.size_bytes, "fresh-geometry")
    ctx.check(ctx.and_([ctx.not_(q) for q in _state(ctx, b)]), "fresh-all-zero")
    ctx.check(b.num_bits_set() == 0 and b.as_string() == "0" * size, "fresh-reads-zero")
    for bad, want in ((0, ValueError), (-1, ValueError), (-size, ValueError), ("8", TypeError), (1.0, TypeError), (None, TypeError)):
        try:
            Bitarray(bad)
            ok = False
        except want:
            ok = True
        except Exception:
            ok = False
        ctx.check(ok, "ctor-rejects")


def history(ctx, cfg):
    """(H) companion: an operation sequence from the fresh Bitarray through the public API only, against a ghost list of bits;
    after the sequence every read (get / is_bit_set / num_bits_set / as_string) must agree with the list"""
    size, ops = cfg["size"], cfg["ops"]
    env.setup(ctx, "utilities")
    from probables.utilities import Bitarray
    b = Bitarray(size)
    ghost = [False] * size
    for s, op in enumerate(ops):
        if op == "clear_all":
            b.clear()
            ghost = [False] * size
            continue
        idx = ctx.int(f"i{s}", 0, size - 1)
        if op == "set":
            b.set_bit(idx)
            new = True
        elif op == "clear":
            b.clear_bit(idx)
            new = False
        else:
            v = ctx.int(f"v{s}", 0, 1)
            b[idx] = v
            new = ctx.eq(v, 1)
        ghost = [ctx.ite(ctx.eq(idx, j), new, g) for j, g in enumerate(ghost)]
    n = b.num_bits_set()
    ctx.check(ctx.eq(n, ctx.sum([ctx.ite(g, 1, 0) for g in ghost])), "history-popcount")
    st = b.as_string()
    ctx.check(len(st) == size and ctx.fork(ctx.and_([ctx.iff(g, ch == "1") for g, ch in zip(ghost, st)])), "history-string")
    ctx.check(ctx.and_([ctx.iff(g, b[j] == 1) for j, g in enumerate(ghost)] + [ctx.iff(g, b.is_bit_set(j)) for j, g in enumerate(ghost)]), "history-reads")
    ctx.check(ctx.and_([ctx.not_(q) for q in _state(ctx, b)[size:]]), "padding-stays-zero")


HARNESS = {"c20.two_steps": two_steps, "c20.step": step, "c20.whole": whole, "c20.fresh": fresh, "c20.history": history}


def jobs(tier):
    big, small = (24, 6) if tier == "quick" else (48, 10)
    js = []
    for s in range(1, big + 1):
        for op in ("set", "clear", "assign", "get", "check", "isset"):
            js.append({"h": "c20.step", "cfg": {"size": s, "op": op}, "opts": {"cost": s}})
        js.append({"h": "c20.whole", "cfg": {"size": s, "op": "clear-all"}})
        js.append({"h": "c20.fresh", "cfg": {"size": s}, "opts": {"no_witness": True}})
    import itertools
    for s in (1, 3, 8, 9) if tier == "quick" else (1, 2, 3, 7, 8, 9, 16, 17, 24):
        for ops in itertools.product(("get", "assign", "set", "check"), repeat=2):
            js.append({"h": "c20.two_steps", "cfg": {"size": s, "ops": list(ops)}, "opts": {"cost": s * 4, "witnesses": 1}})
    for s in (1, 2, 3, 5, 8, 9) if tier == "quick" else (1, 2, 3, 5, 7, 8, 9, 12, 16, 17):
        for n in (2, 3):
            for ops in itertools.product(("set", "clear", "assign", "clear_all"), repeat=n):
                if ops[0] in ("clear", "clear_all") or (n == 3 and "clear_all" not in ops and tier == "quick" and s > 3):
                    continue
                js.append({"h": "c20.history", "cfg": {"size": s, "ops": list(ops)}, "opts": {"cost": s * n, "witnesses": 1}})
    for s in range(1, small + 1):
        for op in ("popcount", "string"):
            js.append({"h": "c20.whole", "cfg": {"size": s, "op": op}, "opts": {"cost": 2 ** s}})
    return js
