"""C06 - exported bytes follow the documented C-compatible layout exactly.  Differential step: an independent reference
reader and writer, written here from the documented layout only, against the library's export / add / check."""
import itertools

from .. import env
from .c01 import sym_bloom, hv
from .c12 import FIXED

PROPERTY = "C06"
CROSS_CHECK = True      # thorough: dumped assertion queries are re-decided by z3 4.8.12 and cvc5 1.0
LEVEL = "translation_validation"
TECHNIQUE = "differential symbolic execution: library export/add/check vs an SMT-term reference reader and writer of the documented layout; equivalence decided by z3 for all states and keys within the bounds"
STUBS = ["array/bytes/Struct/BytesIO shadows (the reference side uses none of them: it works on byte offsets of the exported blob)", "cuckoo: see C03"]
ASSUMPTIONS = [
    "documented layout (README / C reference implementations): Bloom = bit array, bit i is bit (i mod 8) of byte (i div 8), then footer u64 estimated_elements, u64 elements_added, f32 false_positive_rate; counting Bloom = u32 little-endian counters + the same footer; count-min = i32 counters row-major (row*width + column) + footer u32 width, u32 depth, i64 elements_added; expanding/rotating = per sub-filter [u64 elements_added][bit array] + footer u64 number of filters, u64 est, u64 added, f32 rate; cuckoo = u32 fingerprints, zero padded per bucket, + footer u32 bucket_size, u32 max_swaps; counting cuckoo = (u32 fingerprint, u32 count) pairs",
    "position = hash mod size with the hash values themselves symbolic; the hashing rule (FNV-1a seeded per index) is C18 - composing the two gives the statement about keys",
    "reference queries: min = smallest counter; mean = floor(sum / depth); mean-min = median (mean of the two middle values, floored, for even depth) of t - floor((total - t)/(width - 1)), 0 if all counters are 0; width 1 is excluded for mean-min (division by width-1)",
    "geometry (m, k) is recomputed from the footer by the documented sizing formula (C07), little-endian host; per configuration the object's (bits, hashes) must equal ceil(-n ln p32 / 0.4804530139182), round(0.6931471805599453 m / n) evaluated with the real math module at that configuration (a concrete guard per job, label geometry-is-what-a-reader-derives; the formula over all rates is decided in C07)",
]
BOUNDS = {
    "quick": "Bloom 2, 8, 11, 13, 16 bits; counting Bloom 2, 3, 6 cells; count-min 2x2, 3x2 (min, mean, mean-min) and 1x1 (min, mean); expanding/rotating 1..3 sub-filters; cuckoo / counting cuckoo 2x1, 2x2, 3x1 every occupancy",
    "thorough": "adds Bloom 63 bits, count-min 3x3",
    "outside": "compiling and running an actual C reader (the reference is the SMT specification); export_c_header text; big-endian hosts",
}
EXPECT_LABELS = {"quick": ["bloom-writer-agrees", "bloom-reader-agrees", "bloom-length", "cbf-writer-agrees", "cbf-reader-agrees",
                           "cms-writer-agrees", "cms-reader-agrees", "exp-layout", "cuckoo-layout", "ccuckoo-layout", "geometry-is-what-a-reader-derives"]}


def _bits_of_bytes(ctx, bytes_):
    out = []
    for b in bytes_:
        out += ctx.bitlist(b, 8)
    return out


def _doc_geometry(est, fpr):
    """(bits, hashes) an independent reader of the documented layout derives from the footer's (est, rate): the documented
    formulas at this concrete configuration with the real math module (the formula over ALL rates is C07's subject)"""
    import math
    import struct
    p32 = struct.unpack("f", struct.pack("f", fpr))[0]
    m = math.ceil(-est * math.log(p32) / 0.4804530139182)
    return m, int(round(0.6931471805599453 * m / est))


def bloom(ctx, cfg):
    env.setup(ctx, "bloom")
    bf = sym_bloom(ctx, cfg["est"], cfg["fpr"], hash_function=FIXED)
    m, k, L = bf.number_bits, bf.number_hashes, bf.bloom_length
    ctx.check((m, k) == _doc_geometry(cfg["est"], cfg["fpr"]), "geometry-is-what-a-reader-derives")
    B0 = env.export_bytes(ctx, bf)
    n0 = bf.elements_added
    h, g = hv(ctx, "h", k, m), hv(ctx, "g", k, m)
    bf.add_alt(h)
    B1 = env.export_bytes(ctx, bf)
    ctx.check(len(B0) == L + 20 and len(B1) == L + 20 and L == (m + 7) // 8, "bloom-length")
    b0, b1 = _bits_of_bytes(ctx, env.byte_vals(B0)[:L]), _bits_of_bytes(ctx, env.byte_vals(B1)[:L])
    # reference writer: set bit (h_i mod m); bit p lives in byte p div 8 at bit p mod 8, i.e. flat little-endian bit index p
    ctx.check(ctx.and_([ctx.iff(b1[p], ctx.or_([b0[p]] + [ctx.eq(x % m, p) for x in h])) for p in range(8 * L)]), "bloom-writer-agrees")
    import struct
    fpr32 = struct.unpack("f", struct.pack("f", cfg["fpr"]))[0]
    foot = env.pack_le(ctx, [(cfg["est"], 8), (n0 + 1, 8)] + env.f32_fields(fpr32))
    ctx.check(env.blob_eq(ctx, B1[L:], foot), "bloom-footer-at-end")
    # reference reader on the exported bytes
    want = ctx.and_([ctx.or_([ctx.and_(ctx.eq(x % m, p), b1[p]) for p in range(m)]) for x in g])
    ctx.check(ctx.iff(bf.check_alt(g), want), "bloom-reader-agrees")


def cbf(ctx, cfg):
    env.setup(ctx, "bloom", "countingbloom")
    from probables import CountingBloomFilter
    f = CountingBloomFilter(cfg["est"], cfg["fpr"], hash_function=FIXED)
    m, k = f.number_bits, f.number_hashes
    ctx.check((m, k) == _doc_geometry(cfg["est"], cfg["fpr"]), "geometry-is-what-a-reader-derives")
    for j in range(m):
        f._bloom[j] = ctx.int(f"cell{j}", 0, 2 ** 31)
    f.elements_added = ctx.int("added", 0, 2 ** 40)
    n0, pre = f.elements_added, env.cells(f._bloom)
    B0 = env.export_bytes(ctx, f)
    h, g = hv(ctx, "h", k, m), hv(ctx, "g", k, m)
    n = ctx.int("n", 1, 2 ** 20)
    f.add_alt(h, n)
    B1 = env.export_bytes(ctx, f)
    ctx.check(len(B1) == 4 * m + 20 and f.export_size() == 4 * m + 20, "cbf-length")
    c0, c1 = env.u_cells(ctx, B0, 4, m), env.u_cells(ctx, B1, 4, m)
    ctx.check(ctx.all_eq(c0, pre), "cbf-cells-at-4*index")
    ctx.check(ctx.and_([ctx.eq(c1[j], c0[j] + n * ctx.sum([ctx.ite(ctx.eq(x % m, j), 1, 0) for x in h])) for j in range(m)]), "cbf-writer-agrees")
    import struct
    fpr32 = struct.unpack("f", struct.pack("f", cfg["fpr"]))[0]
    ctx.check(env.blob_eq(ctx, B1[4 * m:], env.pack_le(ctx, [(cfg["est"], 8), (n0 + n, 8)] + env.f32_fields(fpr32))), "cbf-footer-at-end")
    # reference reader: the smallest of the k addressed counters
    want = None
    for x in g:
        v = ctx.sum([ctx.ite(ctx.eq(x % m, j), c1[j], 0) for j in range(m)])
        want = v if want is None else ctx.ite(ctx.lt(v, want), v, want)
    ctx.check(ctx.eq(f.check_alt(g), want), "cbf-reader-agrees")


def _ref_query(ctx, kind, vals, total, w, d):
    def lt_sort(xs):          # sorting network by comparison terms (d <= 3)
        xs = list(xs)
        for i in range(len(xs)):
            for j in range(len(xs) - 1 - i):
                a, b = xs[j], xs[j + 1]
                xs[j], xs[j + 1] = ctx.ite(ctx.le(a, b), a, b), ctx.ite(ctx.le(a, b), b, a)
        return xs
    if kind == "min":
        return lt_sort(vals)[0]
    if kind == "mean":
        return ctx.sum(vals) // d
    s = lt_sort(vals)
    mm = lt_sort([t - (total - t) // (w - 1) for t in vals])
    res = (mm[d // 2] + mm[d // 2 - 1]) // 2 if d % 2 == 0 else mm[d // 2]
    return ctx.ite(ctx.and_(ctx.eq(s[0], 0), ctx.eq(s[-1], 0)), 0, res)


def cms(ctx, cfg):
    env.setup(ctx, "cms")
    import probables
    w, d, q = cfg["w"], cfg["d"], cfg["query"]
    cls = {"min": probables.CountMinSketch, "mean": probables.CountMeanSketch, "mean-min": probables.CountMeanMinSketch}[q]
    f = cls(width=w, depth=d, hash_function=FIXED)
    for j in range(w * d):
        f._bins[j] = ctx.int(f"cell{j}", 0, 2 ** 24)
    t0 = ctx.int("total", 0, 2 ** 30)
    f._CountMinSketch__elements_added = t0
    pre = env.cells(f._bins)
    B0 = env.export_bytes(ctx, f)
    h = [ctx.hashval(f"h{i}", w) for i in range(d)]
    g = [ctx.hashval(f"g{i}", w) for i in range(d)]
    n = ctx.int("n", 1, 2 ** 20)
    f.add_alt(h, n)
    B1 = env.export_bytes(ctx, f)
    ctx.check(len(B1) == 4 * w * d + 16, "cms-length")
    c0, c1 = env.u_cells(ctx, B0, 4, w * d, signed=True), env.u_cells(ctx, B1, 4, w * d, signed=True)
    ctx.check(ctx.all_eq(c0, pre), "cms-cells-row-major")
    ctx.check(ctx.and_([ctx.eq(c1[i * w + c], c0[i * w + c] + ctx.ite(ctx.eq(h[i] % w, c), n, 0)) for i in range(d) for c in range(w)]), "cms-writer-agrees")
    ctx.check(env.blob_eq(ctx, B1[4 * w * d:], env.pack_le(ctx, [(w, 4), (d, 4), (t0 + n, 8)])), "cms-footer-at-end")
    vals = [ctx.sum([ctx.ite(ctx.eq(g[i] % w, c), c1[i * w + c], 0) for c in range(w)]) for i in range(d)]
    ctx.check(ctx.eq(f.check_alt(g), _ref_query(ctx, q, vals, t0 + n, w, d)), "cms-reader-agrees")


def expanding(ctx, cfg):
    env.setup(ctx, "bloom", "expanding")
    from probables import ExpandingBloomFilter, RotatingBloomFilter, BloomFilter
    from .c09 import sym_state
    est, L, rate = cfg["est"], cfg["L"], 0.5
    f = RotatingBloomFilter(est, rate, max_queue_size=3, hash_function=FIXED) if cfg["kind"] == "rot" else ExpandingBloomFilter(est, rate, hash_function=FIXED)
    cnt = sym_state(ctx, f, L, est, BloomFilter)
    f._added_elements = ctx.int("added", 0, 2 ** 40)
    fields = []
    for b in f._blooms:
        fields.append((b.elements_added, 8))
        fields += [(c, 1) for c in env.cells(b._bloom)]
    fields += [(L, 8), (est, 8), (f.elements_added, 8)] + env.f32_fields(rate)
    blob = env.export_bytes(ctx, f)
    ctx.check(len(blob) == L * (8 + f._blooms[0].bloom_length) + 28, "exp-length")
    ctx.check(env.blob_eq(ctx, blob, env.pack_le(ctx, fields)), "exp-layout")


def cuckoo(ctx, cfg):
    from . import c03
    t = c03.build(ctx, cfg)
    f = t.f
    fields = []
    for bucket in f.buckets:
        for e in bucket:
            fields += [(e.finger, 4), (e.count, 4)] if t.counting else [(e, 4)]
        fields += [(0, 4)] * ((f.bucket_size - len(bucket)) * (2 if t.counting else 1))
    fields += [(f.bucket_size, 4), (f.max_swaps, 4)]
    blob = env.export_bytes(ctx, f)
    ctx.check(env.blob_eq(ctx, blob, env.pack_le(ctx, fields)), "ccuckoo-layout" if t.counting else "cuckoo-layout")
    # an add that finds a free slot appends the new fingerprint to that bucket's cells (the reference writer for the no-eviction case)
    nfp = c03.new_key(t)
    if not f.check("new"):
        i1, i2 = f._indicies_from_fingerprint(nfp)
        free1 = len(f.buckets[ctx.conc(i1)]) < f.bucket_size
        free2 = len(f.buckets[ctx.conc(i2)]) < f.bucket_size
        if free1 or free2:
            tgt = ctx.conc(i1) if free1 else ctx.conc(i2)
            slot = len(f.buckets[tgt])
            f.add("new")
            after = env.export_bytes(ctx, f)
            width = 8 if t.counting else 4
            off = (tgt * f.bucket_size + slot) * width
            want = env.pack_le(ctx, [(nfp, 4), (1, 4)] if t.counting else [(nfp, 4)])
            ctx.check(env.blob_eq(ctx, after[off:off + width], want), "cuckoo-writer-agrees")
            ctx.check(ctx.and_(env.blob_eq(ctx, after[:off], blob[:off]), env.blob_eq(ctx, after[off + width:], blob[off + width:])), "cuckoo-writer-touches-one-slot")


HARNESS = {"c06.bloom": bloom, "c06.cbf": cbf, "c06.cms": cms, "c06.expanding": expanding, "c06.cuckoo": cuckoo}


def jobs(tier):
    js = []
    o = {"witnesses": 1}
    oc = {"index_concretize_limit": 8, "witnesses": 1}
    for est, fpr in [(1, .5), (3, .28), (3, .25), (3, .2), (4, .25), (5, .3), (5, .22)] + ([(10, .05)] if tier == "thorough" else []):
        js.append({"h": "c06.bloom", "cfg": {"est": est, "fpr": fpr}, "opts": dict(o, cost=est)})
    for est, fpr in [(1, .5), (1, .3), (2, .3)]:
        js.append({"h": "c06.cbf", "cfg": {"est": est, "fpr": fpr}, "opts": dict(o, cost=est * 5)})
    for w, d in [(1, 1), (2, 2), (3, 2)] + ([(3, 3)] if tier == "thorough" else []):
        for q in ("min", "mean", "mean-min"):
            if q == "mean-min" and w == 1:
                continue
            js.append({"h": "c06.cms", "cfg": {"w": w, "d": d, "query": q}, "opts": dict(o, cost=w * d * 3)})
    for kind in ("exp", "rot"):
        for L in (1, 2, 3):
            js.append({"h": "c06.expanding", "cfg": {"kind": kind, "est": 2, "L": L}, "opts": dict(o)})
    for counting in (False, True):
        for cap, bsz in [(2, 1), (2, 2), (3, 1)]:
            for occ in itertools.product(range(bsz + 1), repeat=cap):
                js.append({"h": "c06.cuckoo", "cfg": {"cap": cap, "bsz": bsz, "swaps": 2, "auto": False, "occ": list(occ), "counting": counting},
                           "opts": dict(oc, cost=cap * bsz)})
    return js
