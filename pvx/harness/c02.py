"""C02 - Count-Min estimate is never below the true count nor above the total.  Shape (I) under the multiset invariant."""
from .. import env

PROPERTY = "C02"
CROSS_CHECK = True      # thorough: dumped assertion queries are re-decided by z3 4.8.12 and cvc5 1.0
LEVEL = "model_checking"
STUBS = ["array -> SymArray('i')", "hash_function -> dictionary key -> symbolic 64-bit vector"]
ASSUMPTIONS = [
    "pre-state cells are DEFINED by the invariant cell(i,c) = sum of true counts of the keys whose row-i position is c, elements_added = sum of true counts (asserted again on the post-state, checked on the fresh object: inductive)",
    "a universe of K keys with arbitrary hash vectors in [0,2^64) (and in [-2^64, 2^65] on 2x2 / 3x2: hand-written strategies may return any int) (collisions in any pattern) and arbitrary true counts; total < 2^31-1 (the property's precondition)",
    "remove(key, n) only with n <= true count of that key (the property's precondition)",
]
BOUNDS = {
    "quick": "width x depth in {1x1, 2x2, 3x2, 3x3, 1x3}, K = 2..3 keys; histories of 3 operations from the fresh sketch on 2x2 and 3x2",
    "thorough": "adds 4x3, 6x2, 2x4 with K = 3 and 3x2/2x2 with K = 4; histories of 4 operations",
    "outside": "width > 6, depth > 4, more than 4 distinct keys colliding at once; totals >= 2^31-1 (C16); mean / mean-min queries (C06)",
}
EXPECT_LABELS = {"quick": ["cells-follow-invariant", "total", "true<=est<=total", "unshared-key-exact", "return=check",
                           "fresh-all-zero", "history-bounds", "wrapper-return=check"]}
IMAX = 2 ** 31 - 1


def _inv_cell(ctx, pos, TT, i, col):
    return ctx.sum([ctx.ite(ctx.eq(pos[k][i], col), TT[k], 0) for k in range(len(TT))])


def step(ctx, cfg):
    env.setup(ctx, "cms")
    from probables import CountMinSketch
    w, d, K, op = cfg["w"], cfg["d"], cfg["K"], cfg["op"]
    c = CountMinSketch(width=w, depth=d)
    lo, hi = (-(2 ** 64), 2 ** 65) if cfg.get("wide") else (0, 2 ** 64 - 1)
    H = [[ctx.hashval(f"h{k}_{i}", w, lo, hi) for i in range(d)] for k in range(K)]
    Tc = [ctx.int(f"true{k}", 0, IMAX) for k in range(K)]
    pos = [[H[k][i] % w for i in range(d)] for k in range(K)]
    total = ctx.sum(Tc)
    ctx.assume(ctx.le(total, IMAX - 1))
    if ctx.sym:
        for i in range(d):
            for col in range(w):
                c._bins[i * w + col] = _inv_cell(ctx, pos, Tc, i, col)
        c._CountMinSketch__elements_added = total
    else:       # replay: the pre-state is re-created through the public API (one add per key with its true count)
        for k in range(K):
            if Tc[k] > 0:
                c.add_alt(H[k], Tc[k])
    n = ctx.int("n", 1, IMAX)
    if op == "add":
        ctx.assume(ctx.le(total + n, IMAX - 1))
        r = c.add_alt(H[0], n)
        T2 = [Tc[0] + n] + Tc[1:]
    else:
        ctx.assume(ctx.le(n, Tc[0]))
        r = c.remove_alt(H[0], n)
        T2 = [Tc[0] - n] + Tc[1:]
    total2 = ctx.sum(T2)
    ctx.check(ctx.and_([ctx.eq(c._bins[i * w + col], _inv_cell(ctx, pos, T2, i, col)) for i in range(d) for col in range(w)]),
              "cells-follow-invariant")
    ctx.check(ctx.eq(c.elements_added, total2), "total")
    for k in range(K):
        est = c.check_alt(H[k])
        ctx.check(ctx.and_(ctx.ge(est, T2[k]), ctx.le(est, total2)), "true<=est<=total")
        others = [j for j in range(K) if j != k]
        shared_row = [ctx.or_([ctx.and_(ctx.eq(pos[j][i], pos[k][i]), ctx.gt(T2[j], 0)) for j in others]) for i in range(d)]
        ctx.check(ctx.implies(ctx.not_(ctx.or_(shared_row)), ctx.eq(est, T2[k])), "unshared-key-exact")
        ctx.check(ctx.implies(ctx.not_(ctx.and_(shared_row)), ctx.eq(est, T2[k])), "one-unshared-row-exact")
    ctx.check(ctx.eq(r, c.check_alt(H[0])), "return=check")


def wrappers(ctx, cfg):
    """add(key, n) / remove(key, n) / check(key) / `in` through a dictionary strategy, from the fresh sketch"""
    env.setup(ctx, "cms")
    from probables import CountMinSketch
    w, d = cfg["w"], cfg["d"]
    table = {}
    c = CountMinSketch(width=w, depth=d, hash_function=lambda key, depth=1: table[key][:depth])
    ctx.check(all(x == 0 for x in env.cells(c._bins)) and c.elements_added == 0 and len(env.cells(c._bins)) == w * d, "fresh-all-zero")
    table["a"] = [ctx.hashval(f"a{i}", w) for i in range(d)]
    table[b"b"] = [ctx.hashval(f"b{i}", w) for i in range(d)]
    na, nb, nr = ctx.int("na", 1, 2 ** 20), ctx.int("nb", 1, 2 ** 20), ctx.int("nr", 1, 2 ** 20)
    ctx.assume(ctx.le(nr, na))
    r1 = c.add("a", na)
    ctx.check(ctx.eq(r1, c.check("a")), "wrapper-return=check")
    r2 = c.add(b"b", nb)
    ctx.check(ctx.eq(r2, c.check(b"b")), "wrapper-return=check")
    r3 = c.remove("a", nr)
    ctx.check(ctx.eq(r3, c.check("a")), "wrapper-return=check")
    ea, eb, tot = c.check("a"), c.check(b"b"), c.elements_added
    ctx.check(ctx.eq(tot, na + nb - nr), "history-total")
    ctx.check(ctx.and_(ctx.ge(ea, na - nr), ctx.le(ea, tot), ctx.ge(eb, nb), ctx.le(eb, tot)), "history-bounds")
    ctx.check((b"b" in c) is True, "in-operator")


def history(ctx, cfg):
    """(H) companion: op sequence from the fresh sketch over 2 keys, no invariant assumed; invariant asserted on every state"""
    env.setup(ctx, "cms")
    from probables import CountMinSketch
    w, d, ops = cfg["w"], cfg["d"], cfg["ops"]
    c = CountMinSketch(width=w, depth=d)
    H = [[ctx.hashval(f"h{k}_{i}", w) for i in range(d)] for k in range(2)]
    pos = [[H[k][i] % w for i in range(d)] for k in range(2)]
    Tc = [0, 0]
    for s, (kind, k) in enumerate(ops):
        n = ctx.int(f"n{s}", 1, 2 ** 28)
        if kind == "A":
            r = c.add_alt(H[k], n)
            Tc[k] = Tc[k] + n
        else:
            ctx.assume(ctx.le(n, Tc[k]))
            r = c.remove_alt(H[k], n)
            Tc[k] = Tc[k] - n
        tot = Tc[0] + Tc[1]
        ctx.check(ctx.eq(r, c.check_alt(H[k])), "return=check")
        ctx.check(ctx.and_([ctx.eq(c._bins[i * w + col], _inv_cell(ctx, pos, Tc, i, col)) for i in range(d) for col in range(w)]),
                  "history-invariant")
        for j in range(2):
            e = c.check_alt(H[j])
            ctx.check(ctx.and_(ctx.ge(e, Tc[j]), ctx.le(e, tot)), "history-bounds")
        ctx.check(ctx.eq(c.elements_added, tot), "history-total")


HARNESS = {"c02.step": step, "c02.wrappers": wrappers, "c02.history": history}


def jobs(tier):
    js = []
    geo = [(1, 1, 2), (2, 2, 2), (2, 2, 3), (3, 2, 3), (1, 3, 2), (3, 3, 3)]
    if tier == "thorough":
        geo += [(4, 3, 3), (6, 2, 3), (2, 4, 3), (3, 2, 4), (2, 2, 4)]
    for w, d, K in geo:
        for op in ("add", "remove"):
            js.append({"h": "c02.step", "cfg": {"w": w, "d": d, "K": K, "op": op}, "opts": {"cost": w * d * K * K}})
    for w, d, K in [(2, 2, 2), (3, 2, 2)]:
        for op in ("add", "remove"):
            js.append({"h": "c02.step", "cfg": {"w": w, "d": d, "K": K, "op": op, "wide": True}, "opts": {"cost": w * d * K * K}})
    for w, d in [(1, 1), (2, 2), (3, 2)]:
        js.append({"h": "c02.wrappers", "cfg": {"w": w, "d": d}})
    import itertools
    n = 3 if tier == "quick" else 4
    for w, d in [(2, 2), (3, 2)]:
        for ops in itertools.product([("A", 0), ("A", 1), ("R", 0), ("R", 1)], repeat=n):
            # a removal needs an earlier add of the same key
            cnt, ok = [0, 0], True
            for kind, k in ops:
                if kind == "A":
                    cnt[k] += 1
                elif cnt[k] == 0:
                    ok = False
            if ok and ops[0] == ("A", 0):
                js.append({"h": "c02.history", "cfg": {"w": w, "d": d, "ops": [list(o) for o in ops]}})
    return js
