"""C17 - heavy-hitter and threshold tables are consistent with the returned estimates.  Shape (H): every operation sequence
up to the bound over a 3-key universe; amounts, threshold and all hash vectors symbolic."""
import itertools

from .. import env

PROPERTY = "C17"
CROSS_CHECK = True      # thorough: dumped assertion queries are re-decided by z3 4.8.12 and cvc5 1.0
LEVEL = "model_checking"
STUBS = ["array -> SymArray('i')", "hash vectors symbolic (keys collide in any pattern)"]
ASSUMPTIONS = [
    "key universe of 3 named keys (larger than every table size used); operation kinds and key choices are the job, amounts (1..2^20), the threshold (1..2^22) and every hash value are symbolic",
    "width x depth in {1x1, 2x1, 2x2}: small enough that keys collide in every pattern",
    "removals are not required to be legitimate (the table clause is about returned estimates); cells stay far from the int32 limits",
]
BOUNDS = {
    "quick": "all sequences of <= 4 operations (HeavyHitters: add; StreamThreshold: add/remove) plus all 5-add sequences over up to 4 keys for 2 heavy hitters on 1x1 and 2x1, keys canonically named in order of first use; number_heavy_hitters in {1,2}",
    "thorough": "sequences of 5 operations for StreamThreshold on 1x1 and 2x1; number_heavy_hitters 3 with 5 adds over 4 keys",
    "outside": "longer histories; more than 3 (4) distinct keys; join/frombytes (tables are not stored)",
}
EXPECT_LABELS = {"quick": ["hh-tracked-count", "hh-value-is-last-returned", "hh-no-untracked-above-min", "st-table-exact",
                           "st-value-is-last-returned", "returns-estimate"]}


def _sketch(ctx, cls, w, d, **kw):
    env.setup(ctx, "cms")
    table = {}
    obj = cls(width=w, depth=d, hash_function=lambda key, depth=1: table[key][:depth], **kw)
    return obj, table


def heavy(ctx, cfg):
    from probables import HeavyHitters
    w, d, Hn, seq = cfg["w"], cfg["d"], cfg["H"], cfg["seq"]
    hh, table = _sketch(ctx, HeavyHitters, w, d, num_hitters=Hn)
    for k in sorted(set(x for x in seq if x != "C")):
        table[f"k{k}"] = [ctx.hashval(f"h{k}_{i}", w) for i in range(d)]
    last = {}
    ctx.check(hh.number_heavy_hitters == Hn and hh.heavy_hitters == {}, "hh-fresh")
    for s, k in enumerate(seq):
        if k == "C":        # clear(): the object behaves like a fresh one from here on (the history starts again)
            hh.clear()
            last = {}
            ctx.check(hh.heavy_hitters == {}, "hh-clear-empties")
            continue
        key = f"k{k}"
        n = ctx.int(f"n{s}", 1, 2 ** 20)
        r = hh.add(key, n)
        ctx.check(ctx.eq(r, hh.check(key)), "returns-estimate")
        last[key] = r
        tab = hh.heavy_hitters
        ctx.check(len(tab) == min(Hn, len(last)), "hh-tracked-count")
        ctx.check(all(t in last for t in tab), "hh-tracked-are-seen")
        ctx.check(ctx.and_([ctx.eq(tab[t], last[t]) for t in tab]), "hh-value-is-last-returned")
        if tab:
            for u in last:
                if u not in tab:
                    ctx.check(ctx.and_([ctx.le(last[u], tab[t]) for t in tab]), "hh-no-untracked-above-min")


def threshold(ctx, cfg):
    from probables import StreamThreshold
    w, d, seq = cfg["w"], cfg["d"], cfg["seq"]
    Tv = ctx.int("T", 1, 2 ** 22)
    st, table = _sketch(ctx, StreamThreshold, w, d, threshold=Tv)
    for k in sorted({k for _, k in seq}):
        table[f"k{k}"] = [ctx.hashval(f"h{k}_{i}", w) for i in range(d)]
    last = {}
    ctx.check(st.meets_threshold == {}, "st-fresh")
    for s, (op, k) in enumerate(seq):
        key = f"k{k}"
        n = ctx.int(f"n{s}", 1, 2 ** 20)
        r = st.add(key, n) if op == "A" else st.remove(key, n)
        ctx.check(ctx.eq(r, st.check(key)), "returns-estimate")
        last[key] = r
        tab = st.meets_threshold
        for u, v in last.items():
            meets = ctx.fork(ctx.ge(v, Tv))
            ctx.check((u in tab) is meets, "st-table-exact")
            if u in tab:
                ctx.check(ctx.eq(tab[u], v), "st-value-is-last-returned")
        ctx.check(all(t in last for t in tab), "st-table-only-seen-keys")


HARNESS = {"c17.heavy": heavy, "c17.threshold": threshold}


def _canon(keys):
    """keys are named in order of first use"""
    seen = []
    for k in keys:
        if k not in seen:
            if k != len(seen):
                return False
            seen.append(k)
    return True


def jobs(tier):
    js = []
    geos = [(1, 1), (2, 1), (2, 2)]
    for w, d in geos:
        for Hn in (1, 2):
            for n in (2, 3, 4, 5):
                if n == 5 and (Hn != 2 or (w, d) == (2, 2)):
                    continue
                for seq in itertools.product(range(4 if n == 5 else 3), repeat=n):
                    if _canon(seq) and (n >= 4 or len(set(seq)) > Hn):
                        js.append({"h": "c17.heavy", "cfg": {"w": w, "d": d, "H": Hn, "seq": list(seq)}, "opts": {"cost": 2 ** n, "witnesses": 1}})
        # a clear() in the middle: the history after it is judged like a history from the fresh object
        for Hn, npre, npost in ((1, 2, 2), (1, 2, 3), (1, 3, 2), (2, 3, 3)):
            if Hn == 2 and (w, d) == (2, 2):
                continue
            for pre in itertools.product(range(3), repeat=npre):
                for post in itertools.product(range(3), repeat=npost):
                    if _canon(pre) and _canon(post) and len(set(pre)) > Hn and len(set(post)) > Hn:
                        js.append({"h": "c17.heavy", "cfg": {"w": w, "d": d, "H": Hn, "seq": list(pre) + ["C"] + list(post)}, "opts": {"cost": 30, "witnesses": 1}})
        for n in (1, 2, 3, 4):
            for ops in itertools.product("AR", repeat=n):
                for ks in itertools.product(range(3), repeat=n):
                    if _canon(ks) and ops[0] == "A":
                        js.append({"h": "c17.threshold", "cfg": {"w": w, "d": d, "seq": [[o, k] for o, k in zip(ops, ks)]},
                                   "opts": {"cost": 2 ** n, "witnesses": 1}})
    if tier == "thorough":
        for w, d in [(1, 1), (2, 1)]:
            for ops in itertools.product("AR", repeat=5):
                for ks in itertools.product(range(3), repeat=5):
                    if _canon(ks) and ops[0] == "A":
                        js.append({"h": "c17.threshold", "cfg": {"w": w, "d": d, "seq": [[o, k] for o, k in zip(ops, ks)]}, "opts": {"cost": 40, "witnesses": 1}})
            for seq in itertools.product(range(4), repeat=5):
                if _canon(seq):
                    js.append({"h": "c17.heavy", "cfg": {"w": w, "d": d, "H": 3, "seq": list(seq)}, "opts": {"cost": 40, "witnesses": 1}})
    return js
