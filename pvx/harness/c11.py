"""C11 - the on-disk Bloom filter's file is always a valid, current export.  Shape (I) + a SYMBOLIC CRASH INDEX over the
ordered effects (mmap stores, flushed writes) the real code performs on the backing file."""
from .. import env
from .c01 import hv

PROPERTY = "C11"
CROSS_CHECK = True      # thorough: dumped assertion queries are re-decided by z3 4.8.12 and cvc5 1.0
LEVEL = "model_checking"
STUBS = ["open / mmap / MMap / resolve_path / is_valid_file / copyfile / Path -> VFS model with an ordered effect log (pvx/vfs.py)",
         "array/bytes/int/Struct shadows", "concrete replays: real files, a recording mmap subclass and a recording file proxy"]
ASSUMPTIONS = [
    "process-kill crash model: an mmap store is in the file at once, a buffered write at flush/seek/close; the file after a crash is the base content plus a PREFIX of the effects in program order; no power loss, no torn 8-byte write, no reordering by the kernel",
    "the effect order is what the Python code does (array/mmap item assignment, file.write, flush) - CPython's buffering and the mapping's coherence are modelled, not verified against the kernel",
    "pre-state: arbitrary bit content with an arbitrary present key, file count = in-memory count = N completed additions (the invariant the harness re-establishes after the step)",
    "directories are ids; the current directory at reopen/export time is symbolic (0 = where the file lives, 1 = elsewhere)",
]
BOUNDS = {
    "quick": "geometries (1,.5)->2 bits/1 hash, (3,.28)->8/2, (3,.25)->9/2, (3,.2)->11/3, (4,.25)->12/2, (5,.3)->13/2, (5,.22)->16/2 (bit counts in the residue classes 0,1,2,3,4,5 modulo 8; 6 and 7 in C01); every crash index 0..k+1 of add and 0..1 of close; one close/reopen/close cycle; export to a second path",
    "thorough": "adds (10,.05)->63 bits/4 hashes",
    "outside": "kernel-level durability and real mmap coherence; interruption points between two Python statements that have no file effect (they are equivalent to the preceding effect index); more than one reopen cycle",
}
EXPECT_LABELS = {"quick": ["snapshot-wellformed", "completed-keys-present", "count-lag<=1", "count-never-ahead-of-bits", "after-return-current",
                           "closed-file-is-memory-export", "reopen-keys", "export-copy-identical", "setops-disk-operand", "queries-leave-file", "export-leaves-own-file"]}


def _open(ctx, cfg, name="x.blm"):
    env.setup(ctx, "bloom")
    fs = env.FS(ctx, ["bloom"], cwd=0)
    env.record_effects(ctx, fs)
    from probables import BloomFilterOnDisk
    f = BloomFilterOnDisk(fs.path(0, name), cfg["est"], cfg["fpr"], hash_function=cfg.get("hf"))
    ctx.on_exit(f.close)
    return fs, f


def _sym_content(ctx, fs, f, name="x.blm", tag=""):
    L, m = f.bloom_length, f.number_bits
    bits = []
    for j in range(L):
        c = ctx.bits(f"{tag}cell{j}", 8)
        f._bloom[j] = c
        bits += ctx.bitlist(c, 8)
    ctx.assume(ctx.and_([ctx.not_(p) for p in bits[m:]]))
    N = ctx.int(f"{tag}N", 0, 2 ** 32)
    f.elements_added = N
    fs.poke(0, name, L + 8, env.u64_blob(ctx, N))
    return bits, N


def add_crash(ctx, cfg):
    from probables import BloomFilter
    fs, f = _open(ctx, cfg)
    L, k, m = f.bloom_length, f.number_hashes, f.number_bits
    bits, N = _sym_content(ctx, fs, f)
    old = hv(ctx, "old", k, m)
    ctx.assume(f.check_alt(old) is True)
    log = env.EffectLog(fs, 0, "x.blm")
    log.mark()
    new = hv(ctx, "new", k, m)
    if cfg["op"] == "add":
        f.add_alt(new)
    else:
        f.add_alt(new)
        log.mark()
        f.close()
    n_eff = log.count()
    ctx.reach(f"effects:{n_eff}")       # informational: how many file effects the operation had (not part of the property)
    crash = ctx.int("crash", 0, n_eff)
    snap = log.snapshot(crash)
    ctx.check(len(snap) == L + 20, "snapshot-wellformed")
    g = BloomFilter.frombytes(snap)
    ctx.check(g.number_bits == m and g.number_hashes == k and g.estimated_elements == cfg["est"], "snapshot-wellformed")
    ctx.check(g.check_alt(old) is True, "completed-keys-present")
    rec = g.elements_added
    if cfg["op"] == "add":
        ctx.check(ctx.or_(ctx.eq(rec, N), ctx.eq(rec, N + 1)), "count-lag<=1")
        if ctx.fork(ctx.eq(rec, N + 1)):
            ctx.check(g.check_alt(new) is True, "count-never-ahead-of-bits")
        if ctx.fork(ctx.eq(crash, n_eff)):
            ctx.check(g.check_alt(new) is True and ctx.fork(ctx.eq(rec, N + 1)), "after-return-current")
    else:
        ctx.check(g.check_alt(new) is True and ctx.fork(ctx.eq(rec, N + 1)), "closed-file-current")


def history(ctx, cfg):
    """(H): fresh on-disk filter and fresh in-memory filter, the same two adds through add(key); close: file == export"""
    from probables import BloomFilter
    table = {}
    cfg = dict(cfg, hf=lambda key, depth=1: table[key][:depth])
    fs, f = _open(ctx, cfg)
    L, k, m = f.bloom_length, f.number_hashes, f.number_bits
    fresh = fs.read(0, "x.blm")
    mem = BloomFilter(cfg["est"], cfg["fpr"], hash_function=cfg["hf"])
    ctx.check(env.blob_eq(ctx, fresh, env.export_bytes(ctx, mem)), "fresh-file-is-empty-export")
    for i in range(2):
        table[f"k{i}"] = hv(ctx, f"k{i}_", k, m)
        f.add(f"k{i}")
        mem.add(f"k{i}")
        ctx.check(env.blob_eq(ctx, fs.read(0, "x.blm"), env.export_bytes(ctx, mem)), "file-current-after-every-add")
        ctx.check(f.check(f"k{i}") is True and (f"k{i}" in f) is True and f.elements_added == i + 1, "ondisk-answers")
    f.close()
    ctx.check(env.blob_eq(ctx, fs.read(0, "x.blm"), env.export_bytes(ctx, mem)), "closed-file-is-memory-export")
    g = BloomFilter(filepath=fs.path(0, "x.blm"), hash_function=cfg["hf"])
    ctx.check(g.check("k0") is True and g.check("k1") is True and g.elements_added == 2, "closed-file-loads-in-memory")


def reopen(ctx, cfg):
    from probables import BloomFilter, BloomFilterOnDisk
    table = {}
    hf = lambda key, depth=1: table.get(key, [3, 5, 7, 11, 13, 17, 19, 23, 29, 31])[:depth]  # noqa: E731  (a hand-written strategy, supplied again on reopen)
    fs, f = _open(ctx, dict(cfg, hf=hf))
    L, k, m = f.bloom_length, f.number_hashes, f.number_bits
    bits, N = _sym_content(ctx, fs, f)
    old, new = hv(ctx, "old", k, m), hv(ctx, "new", k, m)
    table["old key"], table["new key"] = old, new
    ctx.assume(f.check_alt(old) is True)
    f.add("new key")
    f.close()
    cwd = ctx.int("cwd", 0, 1)
    fs.chdir(ctx.conc(cwd))
    elsewhere = "-from-other-directory" if ctx.conc(cwd) != 0 else ""
    try:
        g = BloomFilterOnDisk(fs.path(0, "x.blm"), hash_function=hf)
    except FileNotFoundError:
        ctx.check(False, "reopen-same-file" + elsewhere)
        return
    ctx.on_exit(g.close)
    ctx.check(g.number_bits == m and g.number_hashes == k, "reopen-geometry")
    ctx.check(g.check_alt(new) is True and g.check_alt(old) is True, "reopen-keys")
    ctx.check(g.check("new key") is True and g.check("old key") is True and ("new key" in g) is True, "reopen-keys-by-key")
    ctx.check(ctx.eq(g.elements_added, N + 1), "reopen-count")
    g.close()
    again = BloomFilter.frombytes(fs.read(0, "x.blm"))
    ctx.check(ctx.eq(again.elements_added, N + 1), "reopen-close-keeps-count")
    ctx.check(again.check_alt(new) is True and again.check_alt(old) is True, "reopen-close-keeps-keys")


def export(ctx, cfg):
    fs, f = _open(ctx, cfg)
    L, k, m = f.bloom_length, f.number_hashes, f.number_bits
    bits, N = _sym_content(ctx, fs, f)
    new = hv(ctx, "new", k, m)
    f.add_alt(new)
    cwd = ctx.int("cwd", 0, 1)
    fs.chdir(ctx.conc(cwd))
    elsewhere = "-from-other-directory" if ctx.conc(cwd) != 0 else ""
    before = fs.read(0, "x.blm")
    try:
        f.export(fs.path(0, "copy.blm"))
    except FileNotFoundError:
        ctx.check(False, "export-finds-own-file" + elsewhere)
        return
    a, b = fs.read(0, "x.blm"), fs.read(0, "copy.blm")
    # an export is a query (C19): the filter's own file is what it was after the add (also when the added key was already
    # present - round 5: a repeated-key fast path left the footer to the next export)
    ctx.check(env.blob_eq(ctx, before, a), "export-leaves-own-file")
    ctx.check(b is not None and env.blob_eq(ctx, a, b), "export-copy-identical")
    f.export(fs.path(0, "x.blm"))       # exporting onto itself: nothing to do
    ctx.check(env.blob_eq(ctx, a, fs.read(0, "x.blm")), "export-to-self-noop")


def clear(ctx, cfg):
    """clear() on the on-disk filter: the file becomes the export of an empty filter at once (bits AND recorded count), and stays
    so across close / reopen (C11 'always a valid, current export'; C19 'clear() returns it to its initial state')"""
    from probables import BloomFilter, BloomFilterOnDisk
    fs, f = _open(ctx, cfg)
    L, k, m = f.bloom_length, f.number_hashes, f.number_bits
    bits, N = _sym_content(ctx, fs, f)
    f.clear()
    empty = env.export_bytes(ctx, BloomFilter(cfg["est"], cfg["fpr"]))
    ctx.check(f.elements_added == 0, "clear-resets-counter")
    ctx.check(env.blob_eq(ctx, fs.read(0, "x.blm"), empty), "clear-file-is-empty-export")
    f.close()
    ctx.check(env.blob_eq(ctx, fs.read(0, "x.blm"), empty), "clear-file-is-empty-export-after-close")
    g = BloomFilterOnDisk(fs.path(0, "x.blm"))
    ctx.on_exit(g.close)
    ctx.check(g.elements_added == 0 and g.check_alt(hv(ctx, "q", k, m)) is False, "clear-survives-reopen")


def close_updates(ctx, cfg):
    """the anchored mechanism 'close flushes, UPDATES and releases': whatever the live counter is when close() is called (here
    set through the public elements_added setter, which does not touch the file) is what the closed file records"""
    from probables import BloomFilter
    fs, f = _open(ctx, cfg)
    L, k, m = f.bloom_length, f.number_hashes, f.number_bits
    new = hv(ctx, "new", k, m)
    f.add_alt(new)
    N = ctx.int("N", 0, 2 ** 32)
    f.elements_added = N
    f.close()
    g = BloomFilter.frombytes(fs.read(0, "x.blm"))
    ctx.check(ctx.eq(g.elements_added, N), "close-writes-live-counter")
    ctx.check(g.check_alt(new) is True, "close-writes-live-counter")


def relative(ctx, cfg):
    """the same RELATIVE file name used from two working directories names two different files"""
    from probables import BloomFilter, BloomFilterOnDisk
    env.setup(ctx, "bloom")
    fs = env.FS(ctx, ["bloom"], cwd=0)
    k_m = BloomFilter(cfg["est"], cfg["fpr"])
    k, m = k_m.number_hashes, k_m.number_bits
    a = BloomFilterOnDisk("same-name.blm", cfg["est"], cfg["fpr"])
    ka = hv(ctx, "ka", k, m)
    a.add_alt(ka)
    a.close()
    fs.chdir(1)
    b = BloomFilterOnDisk("same-name.blm", cfg["est"], cfg["fpr"])
    kb = hv(ctx, "kb", k, m)
    b.add_alt(kb)
    b.add_alt(kb)
    b.close()
    fa, fb = fs.read(0, "same-name.blm"), fs.read(1, "same-name.blm")
    ctx.check(fa is not None and fb is not None, "relative-names-are-per-directory")
    if fa is not None and fb is not None:
        ga, gb = BloomFilter.frombytes(fa), BloomFilter.frombytes(fb)
        ctx.check(ga.check_alt(ka) is True and ga.elements_added == 1 and gb.check_alt(kb) is True and gb.elements_added == 2,
                  "relative-names-are-per-directory")


def setops(ctx, cfg):
    """C12/C13 with an on-disk operand in either position (goes through BloomFilterOnDisk._get_element)"""
    from .c01 import sym_bloom, bits_of
    from .c12 import FIXED, stub_estimate
    cfg = dict(cfg, hf=FIXED)
    fs, f = _open(ctx, cfg)
    L, k, m = f.bloom_length, f.number_hashes, f.number_bits
    pa, N = _sym_content(ctx, fs, f)
    b = sym_bloom(ctx, cfg["est"], cfg["fpr"], "b.", FIXED)
    pb = bits_of(ctx, b)
    log = env.EffectLog(fs, 0, "x.blm")
    log.mark()
    stub_estimate(ctx)
    u1, u2, i1, i2 = f.union(b), b.union(f), f.intersection(b), b.intersection(f)
    ctx.check(all(x is not None and x.is_on_disk is False for x in (u1, u2, i1, i2)), "setops-result-in-memory")
    for u in (u1, u2):
        ctx.check(ctx.and_([ctx.iff(r, ctx.or_(x, y)) for r, x, y in zip(bits_of(ctx, u), pa, pb)]), "setops-disk-operand")
    for i in (i1, i2):
        ctx.check(ctx.and_([ctx.iff(r, ctx.and_(x, y)) for r, x, y in zip(bits_of(ctx, i), pa, pb)]), "setops-disk-operand")
    n_int = ctx.sum([ctx.ite(ctx.and_(x, y), 1, 0) for x, y in zip(pa, pb)])
    n_uni = ctx.sum([ctx.ite(ctx.or_(x, y), 1, 0) for x, y in zip(pa, pb)])
    j1, j2 = f.jaccard_index(b), b.jaccard_index(f)
    if ctx.fork(ctx.eq(n_uni, 0)):
        ctx.check(j1 == 1.0 and j2 == 1.0, "setops-jaccard")
    else:
        ctx.check(ctx.and_(ctx.ratio_is(j1, n_int, n_uni), ctx.ratio_is(j2, n_int, n_uni)), "setops-jaccard")
    ctx.check(log.count() == 0, "setops-leave-file")


def queries(ctx, cfg):
    """C19 for the on-disk variant: read-only calls have no effect on the backing file"""
    from .c12 import FIXED
    cfg = dict(cfg, hf=FIXED)
    fs, f = _open(ctx, cfg)
    L, k, m = f.bloom_length, f.number_hashes, f.number_bits
    bits, N = _sym_content(ctx, fs, f)
    log = env.EffectLog(fs, 0, "x.blm")
    log.mark()
    q = hv(ctx, "q", k, m)
    f.check_alt(q)
    f.check("some key")
    _ = "some key" in f
    f.hashes("some key")
    f.export_size()
    f.export_hex()
    if not ctx.sym:
        bytes(f), str(f), f.estimate_elements(), f.current_false_positive_rate()
    ctx.check(log.count() == 0, "queries-leave-file")
    ctx.check(ctx.eq(f.elements_added, N), "queries-leave-counter")


HARNESS = {"c11.add_crash": add_crash, "c11.history": history, "c11.reopen": reopen, "c11.export": export, "c11.setops": setops, "c11.clear": clear, "c11.relative": relative, "c11.close_updates": close_updates,
           "c11.queries": queries}


def jobs(tier):
    js = []
    geos = [(1, .5), (3, .28), (3, .25), (3, .2), (4, .25), (5, .3), (5, .22)] + ([(10, .05)] if tier == "thorough" else [])
    for est, fpr in geos:
        for op in ("add", "close"):
            js.append({"h": "c11.add_crash", "cfg": {"est": est, "fpr": fpr, "op": op}, "opts": {"cost": est * 5}})
        for h in ("history", "reopen", "export", "setops", "queries", "clear", "relative", "close_updates"):
            js.append({"h": "c11." + h, "cfg": {"est": est, "fpr": fpr}, "opts": {"cost": est}})
    return js
