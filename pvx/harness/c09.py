"""C09 - expanding Bloom filter grows exactly when its newest filter is full.  Shape (I) on the sub-filter counters."""
from .. import env

PROPERTY = "C09"
CROSS_CHECK = True      # thorough: dumped assertion queries are re-decided by z3 4.8.12 and cvc5 1.0
LEVEL = "model_checking"
TECHNIQUE = ("symbolic execution of the real functions over z3 terms (SMT, bounded; one inductive step from an arbitrary valid state + bounded histories); "
             "counterexamples replayed concretely.  That the growth rule does not depend on the geometry is decided by a sweep over a grid of concrete "
             "(est_elements, rate, counter) configurations with symbolic bit arrays and positions - there the float statistics run as real Python floats")
STUBS = ["array -> SymArray('B')", "bytes/int/Struct shadows (restore-from-export harness)"]
ASSUMPTIONS = [
    "step / history harnesses: sub-filters use a one-hash geometry (rate 0.5 -> k = 1 for est 1..5; rate 0.3 -> k = 2 in thorough); that the growth rule does not depend on the geometry is NOT assumed but decided separately by the boundary sweep (concrete counters at the boundary, real float code, a grid of real geometries); membership itself is C01",
    "pre-state (no push in the history): every sub-filter but the newest holds exactly est insertions, the newest between 1 and est (0..est when it is the only one); bit arrays arbitrary; asserted again on the post-state (inductive)",
    "with push in the history only 'no sub-filter exceeds est' is claimed (as the property states)",
    "elements_added arbitrary (it is only incremented)",
]
BOUNDS = {
    "quick": "boundary sweep: est 1..64 x rates .05...5 (10 values) and est 257, 300 at rate .5, newest counter at est-1 and est, real float statistics; est in {1,2,3,5}, 1..3 sub-filters (one-hash geometry) and est 1..3 with 1..2 two-hash sub-filters, add of a new / duplicate / forced key and push; histories of 4 adds from fresh with est 1..2; restore-from-export of 1..3 sub-filters",
    "thorough": "adds 3 two-hash sub-filters and est 8; boundary sweep est 1..128 with the counter also at est-2",
    "outside": "more than 3 sub-filters in the pre-state (the step is independent of the number of full older filters, but that is not decided here); est > 8",
}
EXPECT_LABELS = {"quick": ["no-overfill", "no-early-growth", "expansions-formula", "dup-counted-not-inserted", "elements_added+1",
                           "push-no-overfill", "history-expansions", "restored-state-same"]}


def sym_state(ctx, f, L, est, BloomFilter):
    """L sub-filters with arbitrary bit arrays and symbolic counters in [0, est]"""
    while len(f._blooms) < L:
        f._blooms.append(BloomFilter(est_elements=est, false_positive_rate=f.false_positive_rate, hash_function=f.hash_function))
    cnt = []
    for i, b in enumerate(f._blooms):
        for j in range(b.bloom_length):
            b._bloom[j] = ctx.bits(f"f{i}c{j}", 8)
        c = ctx.int(f"cnt{i}", 0, est)
        b._els_added = c
        cnt.append(c)
    return cnt


def bits(ctx, f):
    out = []
    for b in f._blooms:
        for c in env.cells(b._bloom):
            out += ctx.bitlist(c, 8)
    return out


def step(ctx, cfg):
    env.setup(ctx, "bloom", "expanding")
    from probables import ExpandingBloomFilter, BloomFilter
    est, L, force, rate = cfg["est"], cfg["L"], cfg["force"], cfg.get("rate", 0.5)
    f = ExpandingBloomFilter(est_elements=est, false_positive_rate=rate)
    cnt = sym_state(ctx, f, L, est, BloomFilter)
    for c in cnt[:-1]:
        ctx.assume(ctx.eq(c, est))
    if L > 1:
        ctx.assume(ctx.ge(cnt[-1], 1))
    added0 = ctx.int("added", 0, 10 ** 9)
    f._added_elements = added0
    I0 = ctx.sum(cnt)
    k, m = f._blooms[0].number_hashes, f._blooms[0].number_bits
    h = [ctx.hashval(f"h{i}", m) for i in range(k)]
    was_present = f.check_alt(h)
    pre_bits = bits(ctx, f)
    f.add_alt(h, force)
    L2 = len(f._blooms)
    cnt2 = [b.elements_added for b in f._blooms]
    I2 = ctx.sum(cnt2)
    ctx.check(ctx.and_([ctx.le(c, est) for c in cnt2]), "no-overfill")
    ctx.check(ctx.eq(f.elements_added, added0 + 1), "elements_added+1")
    if was_present and not force:
        ctx.check(ctx.and_(L2 == L, ctx.eq(I2, I0)), "dup-counted-not-inserted")
        ctx.check(ctx.all_eq(cnt2, cnt), "dup-counted-not-inserted")
        ctx.check(ctx.and_([ctx.iff(p, q) for p, q in zip(pre_bits, bits(ctx, f))]), "dup-no-bit-change")
    else:
        ctx.check(ctx.eq(I2, I0 + 1), "effective+1")
        # grows exactly when the newest was full before the insertion
        ctx.check(ctx.iff(L2 == L + 1, ctx.eq(cnt[-1], est)), "no-early-growth")
        ctx.check(L2 in (L, L + 1), "grows-by-at-most-one")
    ctx.check(f.check_alt(h) is True, "present-after")
    # expansions = max(0, ceil(I/est) - 1), stated linearly: (L'-1)*est < I' <= L'*est   (for I' > 0)
    ctx.check(ctx.or_(ctx.eq(I2, 0), ctx.and_(ctx.gt(I2, (L2 - 1) * est), ctx.le(I2, L2 * est))), "expansions-formula")
    ctx.check(f.expansions == L2 - 1, "expansions-property")
    # the invariant again
    ctx.check(ctx.and_([ctx.eq(c, est) for c in cnt2[:-1]] + ([ctx.ge(cnt2[-1], 1)] if L2 > 1 else [])), "invariant-again")


def boundary(ctx, cfg):
    """the step harness assumes that growth never looks at the geometry; this one drops that assumption on a grid of real
    geometries: counter of the newest sub-filter CONCRETE at est-2 / est-1 / est (so that any float statistic the growth rule may
    consult is computed by the real float code), bit arrays and the inserted positions symbolic, forced insertion"""
    env.setup(ctx, "bloom", "expanding")
    from probables import ExpandingBloomFilter, RotatingBloomFilter, BloomFilter
    est, rate, c, L = cfg["est"], cfg["rate"], cfg["c"], cfg["L"]
    if cfg.get("rotating"):
        f = RotatingBloomFilter(est_elements=est, false_positive_rate=rate, max_queue_size=L)
    else:
        f = ExpandingBloomFilter(est_elements=est, false_positive_rate=rate)
    sym_state(ctx, f, L, est, BloomFilter)
    for b in f._blooms[:-1]:
        b._els_added = est
    f._blooms[-1]._els_added = c
    first = f._blooms[0]
    k, m = first.number_hashes, first.number_bits
    h = [ctx.hashval(f"h{i}", m) for i in range(k)]
    f.add_alt(h, True)
    L2 = len(f._blooms)
    if c < est:
        ctx.check(L2 == L and f._blooms[-1].elements_added == c + 1, "no-early-growth")
        ctx.check(f._blooms[0] is first, "boundary-oldest-kept")
    elif cfg.get("rotating"):
        ctx.check(L2 == L and f._blooms[0] is not first and f._blooms[-1].elements_added == 1, "boundary-rotates-when-full")
    else:
        ctx.check(L2 == L + 1 and f._blooms[-1].elements_added == 1, "boundary-grows-when-full")
    ctx.check(all(b.elements_added <= est for b in f._blooms), "no-overfill")
    ctx.check(f.check_alt(h) is True, "present-after")


BOUNDARY_RATES = (.5, .45, .4, .35, .3, .25, .2, .15, .1, .05)


def boundary_jobs(tier, rotating):
    js = []
    for est in range(1, 65 if tier == "quick" else 129):
        for rate in BOUNDARY_RATES:
            for c in sorted({est - 1, est} | ({max(0, est - 2)} if tier == "thorough" else set())):
                js.append({"h": "c09.boundary", "cfg": {"est": est, "rate": rate, "c": c, "L": 2 if rotating else 1, "rotating": rotating},
                           "opts": {"cost": est, "no_witness": c != est - 1}})
    # sizes beyond CPython's shared small integers (a rule written with `is` instead of `==` behaves differently from 257 on)
    for est in (257, 300):
        for rate in (.5,):
            for c in (est - 1, est):
                js.append({"h": "c09.boundary", "cfg": {"est": est, "rate": rate, "c": c, "L": 2 if rotating else 1, "rotating": rotating},
                           "opts": {"cost": est, "no_witness": c != est - 1}})
    return js


def push(ctx, cfg):
    env.setup(ctx, "bloom", "expanding")
    from probables import ExpandingBloomFilter, BloomFilter
    est, L = cfg["est"], cfg["L"]
    f = ExpandingBloomFilter(est_elements=est, false_positive_rate=0.5)
    cnt = sym_state(ctx, f, L, est, BloomFilter)            # any counters <= est (pushes allowed in the history)
    k, m = f._blooms[0].number_hashes, f._blooms[0].number_bits
    h = [ctx.hashval(f"h{i}", m) for i in range(k)]
    added0 = f.elements_added
    if cfg["op"] == "push":
        f.push()
        ctx.check(len(f._blooms) == L + 1 and f.expansions == L, "push-adds-one")
        ctx.check(f.elements_added == added0, "push-count-unchanged")
    else:
        f.add_alt(h, cfg["force"])
    ctx.check(ctx.and_([ctx.le(b.elements_added, est) for b in f._blooms]), "push-no-overfill")


def history(ctx, cfg):
    """(H): n adds (new / duplicate by construction / forced) from the fresh filter through add(key); formula after every step"""
    env.setup(ctx, "bloom", "expanding")
    from probables import ExpandingBloomFilter
    est, n = cfg["est"], cfg["n"]
    table = {}
    f = ExpandingBloomFilter(est_elements=est, false_positive_rate=0.5, hash_function=lambda key, depth=1: table[key][:depth])
    k, m = f._blooms[0].number_hashes, f._blooms[0].number_bits
    ctx.check(len(f._blooms) == 1 and f.expansions == 0 and f.elements_added == 0 and f._blooms[0].elements_added == 0, "fresh-state")
    eff = 0
    for s in range(n):
        key = f"k{s}"
        table[key] = [ctx.hashval(f"k{s}_{i}", m) for i in range(k)]
        force = cfg["forces"][s]
        was = f.check(key)
        f.add(key, force)
        if force or not was:
            eff += 1
        ctx.check(f.elements_added == s + 1, "history-elements_added")
        ctx.check(f.expansions == max(0, -(-eff // est) - 1), "history-expansions")
        ctx.check(all(b.elements_added <= est for b in f._blooms), "no-overfill")
        ctx.check((key in f) is True, "present-after")


def restored(ctx, cfg):
    """a filter restored from an export is in the same state (counters, bits, totals), so the step above applies to it"""
    env.setup(ctx, "bloom", "expanding")
    from probables import ExpandingBloomFilter, BloomFilter
    est, L = cfg["est"], cfg["L"]
    f = ExpandingBloomFilter(est_elements=est, false_positive_rate=0.5)
    cnt = sym_state(ctx, f, L, est, BloomFilter)
    f._added_elements = ctx.int("added", 0, 10 ** 9)
    g = ExpandingBloomFilter.frombytes(env.export_bytes(ctx, f))
    ctx.check(len(g._blooms) == L and g.estimated_elements == est, "restored-geometry")
    ctx.check(ctx.and_([ctx.eq(a.elements_added, b.elements_added) for a, b in zip(f._blooms, g._blooms)] +
                       [ctx.eq(f.elements_added, g.elements_added)] +
                       [ctx.iff(p, q) for p, q in zip(bits(ctx, f), bits(ctx, g))]), "restored-state-same")


HARNESS = {"c09.boundary": boundary, "c09.step": step, "c09.push": push, "c09.history": history, "c09.restored": restored}


def jobs(tier):
    import itertools
    js = []
    ests = (1, 2, 3, 5) if tier == "quick" else (1, 2, 3, 5, 8)
    for est in ests:
        for L in (1, 2, 3):
            for force in (False, True):
                js.append({"h": "c09.step", "cfg": {"est": est, "L": L, "force": force}})
                js.append({"h": "c09.push", "cfg": {"est": est, "L": L, "force": force, "op": "add"}})
            js.append({"h": "c09.push", "cfg": {"est": est, "L": L, "force": False, "op": "push"}})
            js.append({"h": "c09.restored", "cfg": {"est": est, "L": L}})
    for est in (1, 2, 3):
        for L in (1, 2) if tier == "quick" else (1, 2, 3):
            for force in (False, True):
                js.append({"h": "c09.step", "cfg": {"est": est, "L": L, "force": force, "rate": 0.3}, "opts": {"cost": 50}})
    js += boundary_jobs(tier, False)
    for est in (1, 2):
        for forces in itertools.product((False, True), repeat=4):
            js.append({"h": "c09.history", "cfg": {"est": est, "n": 4, "forces": list(forces)}})
    return js
