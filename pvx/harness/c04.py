"""C04 - Quotient filter is an exact set of 32-bit hashes under add/remove/resize/merge.  Shape (H): all short histories
from the empty filter; the 3 quotient bits of every hash are the job, the 29 remainder bits are symbolic."""
import itertools

from .. import env

PROPERTY = "C04"
LEVEL = "model_checking"
STUBS = ["array -> SymArray ('B' in Bitarray, 'L' for the remainders)", "hash_function -> dictionary key -> symbolic 32-bit hash"]
ASSUMPTIONS = [
    "quotient size 3 (8 slots; 4 after a resize): the smallest table the constructor accepts, where runs, clusters and wrap-around all occur within 3-4 elements",
    "every hash = q*2^29 + r with q concrete per job (all 8^n combinations enumerated) and r an arbitrary 29-bit value (symbolic)",
    "non-termination is detected by a decision budget and a per-path wall-clock limit (reported as inconclusive and replayed concretely)",
]
BOUNDS = {
    "quick": "all add/remove sequences of length <= 3 that start with an add (x 8^len quotient choices), checked after every step; 5-add sequences whose quotients cover a window of 3 neighbouring slots (window at 3, and part of the wrap-around window at 6), compared at the end; resize up/down, auto-expand and merge shapes with <= 3 elements; the full 8-slot table for 4 quotient patterns",
    "thorough": "adds the length-4 sequences AAAA, AAAR, AARA, AARR (8^4 quotient choices each), the 5-operation window sequences for all 8 window positions and 4 shapes, and merge of 2+2 elements",
    "outside": "tables of 16+ slots reached other than by one resize; histories longer than 4; quotient sizes > 4",
}
EXPECT_LABELS = {"quick": ["member-present", "hashes-exact", "nonmember-absent", "count", "resize-keeps-set", "merge-is-union",
                           "auto-expand-keeps-set", "full-table"]}
R = 1 << 29


def _hash(ctx, name, q, rbits=29):
    """32-bit hash with concrete top (32 - rbits) bits q and symbolic low rbits"""
    return ctx.compose(q, 1 << rbits, ctx.int(name, 0, (1 << rbits) - 1))


def _hash4(ctx, name, q4):
    return _hash(ctx, name, q4, 28)


def _member(ctx, x, model):
    return any(x == m for m in model)


def _check_state(ctx, f, model, step, probes=False, count=True):
    for m in model:
        ctx.check(f.check_alt(m) is True, "member-present")
    got = f.get_hashes()
    ok = len(got) == len(model) and all(any(g == m for g in got) for m in model)
    ctx.check(ok, "hashes-exact")
    if count:
        ctx.check(f.elements_added == len(model), "count")
    if probes:
        rb = f.remainder
        for pq in range(f.num_elements):
            p = ctx.compose(pq, 1 << rb, ctx.int(f"probe{pq}", 0, (1 << rb) - 1))
            if _member(ctx, p, model):
                continue
            ctx.check(f.check_alt(p) is False, "nonmember-absent")


def history(ctx, cfg):
    env.setup(ctx, "qf", "utilities")
    from probables import QuotientFilter
    shape, qs = cfg["shape"], cfg["qs"]
    f = QuotientFilter(quotient=3, auto_expand=False)
    model = []
    for step, (op, q) in enumerate(zip(shape, qs)):
        x = _hash(ctx, f"r{step}", q)
        if op == "A":
            f.add_alt(x)
            if not _member(ctx, x, model):
                model.append(x)
        else:
            f.remove_alt(x)
            model = [m for m in model if not (m == x)]
        _check_state(ctx, f, model, step, probes=(step == len(shape) - 1))


def deep(ctx, cfg):
    """longer histories (5 operations) with the set compared only at the end; quotients confined to a window of three
    neighbouring slots (where runs and clusters interact), all rotations of the window including wrap-around"""
    env.setup(ctx, "qf", "utilities")
    from probables import QuotientFilter
    shape, qs = cfg["shape"], cfg["qs"]
    f = QuotientFilter(quotient=3, auto_expand=False)
    model = []
    for step, (op, q) in enumerate(zip(shape, qs)):
        x = _hash(ctx, f"r{step}", q)
        if op == "A":
            f.add_alt(x)
            if not _member(ctx, x, model):
                model.append(x)
        else:
            f.remove_alt(x)
            model = [m for m in model if not (m == x)]
    for m in model:
        ctx.check(f.check_alt(m) is True, "member-present")
    got = f.get_hashes()
    ctx.check(len(got) == len(model) and all(any(g == m for g in got) for m in model), "hashes-exact")
    ctx.check(f.elements_added == len(model), "count")
    rb = f.remainder
    for pq in sorted(set(qs)):
        p = ctx.compose(pq, 1 << rb, ctx.int(f"probe{pq}", 0, (1 << rb) - 1))
        if not _member(ctx, p, model):
            ctx.check(f.check_alt(p) is False, "nonmember-absent")


def resize(ctx, cfg):
    """adds at quotient 3, resize() to 4 (and optionally back to 3), then add/remove again"""
    env.setup(ctx, "qf", "utilities")
    from probables import QuotientFilter
    from probables.exceptions import QuotientFilterError
    qs, shape = cfg["qs"], cfg["shape"]
    f = QuotientFilter(quotient=3, auto_expand=False)
    model, i = [], 0
    for op in shape:
        if op == "A":
            x = _hash4(ctx, f"r{i}", qs[i])
            i += 1
            f.add_alt(x)
            if not _member(ctx, x, model):
                model.append(x)
        elif op == "R":
            x = _hash4(ctx, f"r{i}", qs[i])
            i += 1
            f.remove_alt(x)
            model = [m for m in model if not (m == x)]
        elif op == "G":
            f.resize()
            ctx.check(f.quotient == 4 and f.num_elements == 16 and f.remainder == 28, "resize-geometry")
        elif op == "S":
            f.resize(3)
            ctx.check(f.quotient == 3 and f.num_elements == 8, "resize-geometry")
        for m in model:
            ctx.check(f.check_alt(m) is True, "member-present")
        got = f.get_hashes()
        ctx.check(len(got) == len(model) and all(any(g == m for g in got) for m in model), "resize-keeps-set")
        ctx.check(f.elements_added == len(model), "count")
    try:
        f.resize(2)
        ctx.check(False, "resize-rejects-small-quotient")
    except QuotientFilterError:
        ctx.check(True, "resize-rejects-small-quotient")


def auto(ctx, cfg):
    """auto_expand=True with max_load_factor lowered through its public setter: growth happens on the 3rd add"""
    env.setup(ctx, "qf", "utilities")
    from probables import QuotientFilter
    qs = cfg["qs"]
    f = QuotientFilter(quotient=3, auto_expand=True)
    f.max_load_factor = 0.25
    model = []
    for i, q in enumerate(qs):
        x = _hash4(ctx, f"r{i}", q)
        f.add_alt(x)
        if not _member(ctx, x, model):
            model.append(x)
        for m in model:
            ctx.check(f.check_alt(m) is True, "member-present")
        got = f.get_hashes()
        ctx.check(len(got) == len(model) and all(any(g == m for g in got) for m in model), "auto-expand-keeps-set")
        ctx.check(f.elements_added == len(model), "count")
    ctx.check(f.quotient in (3, 4), "auto-expand-grew-at-most-once")


def merge(ctx, cfg):
    env.setup(ctx, "qf", "utilities")
    from probables import QuotientFilter
    qa, qb = cfg["qa"], cfg["qb"]
    a, b = QuotientFilter(quotient=3, auto_expand=False), QuotientFilter(quotient=3, auto_expand=False)
    ma, mb = [], []
    for i, q in enumerate(qa):
        x = _hash(ctx, f"a{i}", q)
        a.add_alt(x)
        if not _member(ctx, x, ma):
            ma.append(x)
    for i, q in enumerate(qb):
        x = _hash(ctx, f"b{i}", q)
        b.add_alt(x)
        if not _member(ctx, x, mb):
            mb.append(x)
    a.merge(b)
    if cfg.get("then_add") is not None:      # mutate the receiver afterwards: the argument must not move (no shared storage)
        y = _hash(ctx, "after", cfg["then_add"])
        a.add_alt(y)
        if not _member(ctx, y, ma) and not _member(ctx, y, mb):
            ma = ma + [y]
    model = list(ma)
    for x in mb:
        if not _member(ctx, x, model):
            model.append(x)
    got = a.get_hashes()
    ctx.check(len(got) == len(model) and all(any(g == m for g in got) for m in model), "merge-is-union")
    ctx.check(a.elements_added == len(model), "count")
    gb = b.get_hashes()
    ctx.check(len(gb) == len(mb) and all(any(g == m for g in gb) for m in mb) and b.elements_added == len(mb), "merge-leaves-second")


def full(ctx, cfg):
    """8 distinct hashes fill the 8-slot table completely (auto_expand off): everything must still work; a 9th add is refused"""
    env.setup(ctx, "qf", "utilities")
    from probables import QuotientFilter
    from probables.exceptions import QuotientFilterError
    qs = cfg["qs"]
    f = QuotientFilter(quotient=3, auto_expand=False)
    model = []
    for i, q in enumerate(qs):
        x = _hash(ctx, f"r{i}", q)
        ctx.assume(not _member(ctx, x, model))
        f.add_alt(x)
        model.append(x)
    ctx.check(f.elements_added == 8, "count")
    for m in model:
        ctx.check(f.check_alt(m) is True, "member-present")
    try:
        got = f.get_hashes()
    except IndexError:
        ctx.check(False, "full-table-get-hashes")
        got = None
    if got is not None:
        ctx.check(len(got) == 8 and all(any(g == m for g in got) for m in model), "full-table")
    y = _hash(ctx, "extra", cfg["extra"])
    if not _member(ctx, y, model):
        try:
            f.add_alt(y)
            ctx.check(False, "full-table-add-refused")
        except QuotientFilterError:
            ctx.check(True, "full-table-add-refused")
        for m in model:
            ctx.check(f.check_alt(m) is True, "member-present")
    ctx.reach("full-table")


def wrappers(ctx, cfg):
    env.setup(ctx, "qf", "utilities")
    from probables import QuotientFilter
    table = {}
    f = QuotientFilter(quotient=3, auto_expand=False, hash_function=lambda key, seed=0: table[key])
    table["a"], table[b"b"] = _hash(ctx, "ra", cfg["qa"]), _hash(ctx, "rb", cfg["qb"])
    f.add("a")
    ctx.check(f.check("a") is True and ("a" in f) is True, "wrapper-present")
    same = table["a"] == table[b"b"]
    ctx.check(f.check(b"b") is same, "wrapper-exact")
    f.add(b"b")
    f.remove("a")
    ctx.check(f.check("a") is False and f.check(b"b") is (not same), "wrapper-remove")


HARNESS = {"c04.deep": deep, "c04.history": history, "c04.resize": resize, "c04.auto": auto, "c04.merge": merge, "c04.full": full,
           "c04.wrappers": wrappers}


def jobs(tier):
    js = _jobs(tier)
    for j in js:
        j.setdefault("opts", {}).setdefault("path_seconds", 20)
    return js


def _jobs(tier):
    js = []
    shapes = ["A", "AA", "AR", "AAA", "AAR", "ARA", "ARR"]
    if tier == "thorough":
        shapes += ["AAAA", "AAAR", "AARA", "AARR"]
    for sh in shapes:
        for qs in itertools.product(range(8), repeat=len(sh)):
            js.append({"h": "c04.history", "cfg": {"shape": sh, "qs": list(qs)}, "opts": {"cost": 10 ** len(sh), "witnesses": 1}})
    for sh in ("AAAR", "AARA"):       # quick and thorough: four operations with one removal, quotients in a window of 3, every window
        for q0 in range(8):
            for rel in itertools.product(range(3), repeat=4):
                if rel[0] == 0:
                    js.append({"h": "c04.deep", "cfg": {"shape": sh, "qs": [(q0 + r) % 8 for r in rel]}, "opts": {"cost": 300, "witnesses": 1}})
    for sh in ("AAAAA",) if tier == "quick" else ("AAAAA", "AAAAR", "AAARA", "AARAA"):
        for q0 in (3, 6) if tier == "quick" else range(8):
            for rel in itertools.product(range(3), repeat=5):
                if rel[0] != 0 or len(set(rel)) == 1 or (tier == "quick" and (len(set(rel)) < 3 or (q0 == 6 and rel[1] == 0))):
                    continue        # (five operations on one single quotient: 5! orderings, 150 s per job - thorough tier of c04.history covers 4)
                js.append({"h": "c04.deep", "cfg": {"shape": sh, "qs": [(q0 + r) % 8 for r in rel]}, "opts": {"cost": 2000, "witnesses": 1}})

    def near(a, b):            # the two hashes are neighbours at quotient size 3 (they form a cluster)
        return (a // 2 - b // 2) % 8 in (0, 1, 7)
    for sh, n in (("AAG", 2), ("AAGS", 2), ("AGAS", 2), ("AAGA", 3), ("AAGR", 3)):
        for qs in itertools.product(range(16), repeat=n):
            if tier == "quick" and n == 3 and (not near(qs[0], qs[1]) or (qs[2] - qs[0]) % 2):
                continue
            js.append({"h": "c04.resize", "cfg": {"shape": sh, "qs": list(qs)}, "opts": {"cost": 500, "witnesses": 1}})
    for qs in itertools.product(range(16), repeat=3):
        if tier == "quick" and (not near(qs[0], qs[1]) or (qs[2] - qs[1]) % 2):
            continue
        js.append({"h": "c04.auto", "cfg": {"qs": list(qs)}, "opts": {"cost": 300, "witnesses": 1}})
    for qa in itertools.product(range(8), repeat=2):
        for qb in itertools.product(range(8), repeat=1 if tier == "quick" else 2):
            js.append({"h": "c04.merge", "cfg": {"qa": list(qa), "qb": list(qb)}, "opts": {"cost": 300, "witnesses": 1}})
    for qb in itertools.product(range(8), repeat=2):
        for then in (qb[0], (qb[0] + 1) % 8):
            js.append({"h": "c04.merge", "cfg": {"qa": [], "qb": list(qb), "then_add": then}, "opts": {"cost": 300, "witnesses": 1}})
    for qs in ([0, 1, 2, 3, 4, 5, 6, 7], [0, 0, 0, 0, 0, 1, 1, 1], [7, 7, 7, 7, 0, 0, 0, 0], [3, 3, 3, 5, 5, 5, 7, 7], [6, 6, 7, 7, 0, 0, 1, 1]):
        js.append({"h": "c04.full", "cfg": {"qs": qs, "extra": 2}, "opts": {"cost": 5000, "witnesses": 1, "max_seconds": 240}})
    for qa in range(8):
        for qb in (qa, (qa + 1) % 8, (qa + 7) % 8):
            js.append({"h": "c04.wrappers", "cfg": {"qa": qa, "qb": qb}})
    return js
