"""one module per property: jobs(tier), HARNESS{name: fn(ctx, cfg)}, BOUNDS, ASSUMPTIONS, STUBS"""
