"""C15 - cuckoo table invariants hold after every operation.  The invariant that C03 assumes on its arbitrary pre-state is
asserted here on the post-state of add / remove / expand (every eviction choice symbolic) and on tables loaded from an export."""
import itertools

from .. import env
from . import c03

PROPERTY = "C15"
LEVEL = "model_checking"
STUBS = c03.STUBS + ["bytes/BytesIO/Struct shadows for export -> frombytes"]
ASSUMPTIONS = c03.ASSUMPTIONS + ["load: the exported table is an arbitrary valid table; fingerprint width, hash function and expansion settings are re-supplied as the format does not store them"]
BOUNDS = dict(c03.BOUNDS)
EXPECT_LABELS = {"quick": ["inv-bucket-size", "inv-candidate-bucket", "inv-distinct", "inv-no-zero-count", "inv-capacity-growth",
                           "load-table-equal", "load-inv-candidate-bucket", "inv-candidate-bucket-concrete-fp"]}


def load(ctx, cfg):
    """export an arbitrary valid table, load it with frombytes: same buckets in the same order, invariants hold"""
    t = c03.build(ctx, cfg)
    f = t.f
    env.setup(ctx, "cuckoo", "countingcuckoo")
    blob = env.export_bytes(ctx, f)
    cls = type(f)
    g = cls.frombytes(blob, hash_function=t.hf)
    before = c03.stored(t)
    t2 = c03.Tab()
    t2.ctx, t2.f, t2.counting = ctx, g, t.counting
    after = c03.stored(t2)
    ctx.check(g.capacity == f.capacity and g.bucket_size == f.bucket_size and g.max_swaps == f.max_swaps, "load-geometry")
    ctx.check(len(before) == len(after) and ctx.fork(ctx.and_([ctx.and_(x[0] == y[0], ctx.eq(x[1], y[1]), ctx.eq(x[2], y[2])) for x, y in zip(before, after)])),
              "load-table-equal")
    ctx.check(ctx.eq(g.elements_added, f.elements_added), "load-count")
    conds = []
    t2.hf = t.hf
    for b, fp, cnt in after:
        i1, i2 = c03.candidates(t2, fp)
        conds.append(ctx.or_(ctx.eq(i1, b), ctx.eq(i2, b)))
    ctx.check(ctx.and_(conds), "load-inv-candidate-bucket")
    ctx.check(all(len(b) <= g.bucket_size for b in g.buckets), "load-inv-bucket-size")
    if t.counting:
        ctx.check(g.unique_elements == len(after), "load-unique")


def concrete_fp_history(ctx, cfg):
    """(H) companion with CONCRETE fingerprint values (the job) and a symbolic second index per fingerprint: add the keys, expand,
    add one more key; the invariants are asserted after every step with the candidate buckets computed by the harness.
    (Covers implementations that key a dict/set by the fingerprint, which symbolic fingerprints cannot enter.)"""
    from probables.exceptions import CuckooFilterFullError
    c = dict(cfg, occ=[0] * cfg["cap"], swaps=2, auto=cfg.get("auto", False))
    t = c03.build(ctx, c)
    f = t.f
    try:
        for i, fp in enumerate(cfg["fps"]):
            t.HK[f"key{i}"] = fp
            f.add(f"key{i}")
            c03.invariants(t, cfg["cap"], "-concrete-fp")
        f.expand()
        c03.invariants(t, cfg["cap"], "-concrete-fp")
        t.HK["last"] = cfg["last"]
        f.add("last")
        c03.invariants(t, cfg["cap"], "-concrete-fp")
    except CuckooFilterFullError:
        ctx.reach("concrete-fp-history-full")
        return
    for i, fp in enumerate(cfg["fps"]):
        ctx.check(bool(f.check(f"key{i}")) is True, "concrete-fp-present")


HARNESS = dict(c03.HARNESS)
HARNESS["c15.concrete_fp_history"] = concrete_fp_history
HARNESS["c15.load"] = load


def jobs(tier):
    js = c03.scoped([j for j in c03.jobs(tier) if not j["h"].endswith("lookup")], "inv")
    for counting in (False, True):
        for cap, bsz in [(1, 1), (2, 1), (2, 2), (3, 1)]:
            for occ in itertools.product(range(bsz + 1), repeat=cap):
                js.append({"h": "c15.load", "cfg": {"cap": cap, "bsz": bsz, "swaps": 3, "auto": True, "occ": list(occ), "counting": counting},
                           "opts": {"index_concretize_limit": 8, "witnesses": 1}})
    for counting in (False, True):
        for cap, bsz in [(2, 1), (2, 2), (3, 1)]:
            for fps in ([1, 2], [1, 3], [2, 4], [1, 2, 3], [3, 5, 6]):
                if len(fps) > cap * bsz:
                    continue
                js.append({"h": "c15.concrete_fp_history", "cfg": {"cap": cap, "bsz": bsz, "fps": fps, "last": 7, "counting": counting},
                           "opts": {"index_concretize_limit": 8, "witnesses": 1, "cost": 20}})
    return js
