"""C05 - export followed by load reproduces the structure on every channel.  State-level: the whole state symbolic."""
import itertools

from .. import env
from .c01 import sym_bloom, bits_of, hv

PROPERTY = "C05"
CROSS_CHECK = True      # thorough: dumped assertion queries are re-decided by z3 4.8.12 and cvc5 1.0
LEVEL = "model_checking"
STUBS = ["array/bytes/bytearray/int/Struct/BytesIO shadows", "hex channel as an abstract pair (2 digits per byte)",
         "file path channel through the VFS model (open/MMap/resolve_path/is_valid_file)", "cuckoo: see C03"]
ASSUMPTIONS = [
    "the whole state is symbolic: every cell, counter, element total, fingerprint and bin count (cuckoo tables under the C15 invariant, fingerprint 0 allowed where stated)",
    "rates are compared after the float32 narrowing the format imposes (C07a); geometry is derived from (est, rate) by the real constructor",
    "what the format does not store is re-supplied: hash function, cuckoo fingerprint width / expansion settings, rotating queue limit, number of heavy hitters / threshold",
    "real disk I/O and binascii are modelled (VFS, abstract hex pair); the on-disk Bloom filter is C11's subject",
]
BOUNDS = {
    "quick": "Bloom (1,.5)->2 bits, (3,.28)->8/2, (3,.2)->11/3, (5,.3)->13/2, (5,.22)->16/2; counting Bloom 2, 3, 6 cells; expanding/rotating 1..3 sub-filters (est 2, one-hash geometry; 8- and 16-bit two-hash sub-filters); count-min family 1x1, 2x2, 3x2 (mean-min from width 2); cuckoo / counting cuckoo capacity 1..3 x bucket 1..2, every occupancy shape; channels bytes, __bytes__, file object, file path (+ hex for the Bloom family); a SECOND export (every read-only export called once, then an add and the counter set back) on Bloom 8 / 11 bits and counting Bloom 3 / 6 cells, every channel",
    "thorough": "adds Bloom (10,.05)->63/4, counting Bloom 11 cells, count-min 3x3",
    "outside": "larger geometries; real file systems; BloomFilterOnDisk (C11)",
}
EXPECT_LABELS = {"quick": ["cells-equal", "geometry-equal", "count-equal", "reexport-identical", "same-answer", "same-class",
                           "channels-agree", "cuckoo-table-equal"]}
FIXED = lambda key, depth=1: [3, 5, 7, 11, 13, 17, 19, 23, 29, 31][:depth]  # noqa: E731
CHANNELS = ("bytes", "dunder", "fileobj", "path", "hex")


def _load(ctx, obj, channel, fs, from_bytes, from_path, from_hex=None):
    """export obj on `channel` and load it back; returns (loaded object, exported blob)"""
    if channel == "bytes":
        blob = env.export_bytes(ctx, obj)
        return from_bytes(blob), blob
    if channel == "dunder":
        blob = obj.__bytes__()
        return from_bytes(blob), blob
    if channel == "fileobj":
        f = env.new_file(ctx)
        obj.export(f)
        blob = f.getvalue()
        return from_bytes(blob), blob
    if channel == "path":
        p = fs.path(0, "exported.bin")
        obj.export(p)
        return from_path(p), fs.read(0, "exported.bin")
    if channel == "hex":
        h = obj.export_hex()
        return from_hex(h), h
    raise ValueError(channel)


def _bloomlike(ctx, cfg):
    env.setup(ctx, "bloom", "countingbloom")
    fs = env.FS(ctx, ["bloom", "countingbloom"])
    from probables import BloomFilter, CountingBloomFilter
    counting = cfg["kind"] == "cbf"
    table = {}
    FIXED = lambda key, depth=1: table.get(key, [3, 5, 7, 11, 13, 17, 19, 23, 29, 31])[:depth]  # noqa: E731,N806  (a hand-written strategy, re-supplied to every loader)
    if counting:
        obj = CountingBloomFilter(cfg["est"], cfg["fpr"], hash_function=FIXED)
        for j in range(obj.number_bits):
            obj._bloom[j] = ctx.int(f"cell{j}", 0, 2 ** 32 - 1)
        obj.elements_added = ctx.int("added", 0, 2 ** 64 - 1)
        cls = CountingBloomFilter
    else:
        obj = sym_bloom(ctx, cfg["est"], cfg["fpr"], hash_function=FIXED)
        cls = BloomFilter
    ch = cfg["channel"]
    if cfg.get("second"):
        # a SECOND export: every read-only export has been called once, then the content changed while the element counter is
        # what it was (e.g. counting: remove + add; here, for every kind, an add followed by the documented counter setter) - what is exported now
        # must be the current content on every channel (round 5: __bytes__ reused a payload remembered per counter value)
        obj.__bytes__(), obj.export_hex(), env.export_bytes(ctx, obj)
        n0 = obj.elements_added
        obj.add_alt([0] * obj.number_hashes)
        obj.elements_added = n0
    g, blob = _load(ctx, obj, ch, fs, lambda b: cls.frombytes(b, hash_function=FIXED), lambda p: cls(filepath=p, hash_function=FIXED),
                    lambda h: cls(hex_string=h, hash_function=FIXED))
    ctx.check(type(g) is cls, "same-class")
    ctx.check(g.number_bits == obj.number_bits and g.number_hashes == obj.number_hashes and g.bloom_length == obj.bloom_length
              and g.estimated_elements == obj.estimated_elements and g.false_positive_rate == obj.false_positive_rate, "geometry-equal")
    ctx.check(ctx.eq(g.elements_added, obj.elements_added), "count-equal")
    ctx.check(ctx.all_eq(env.cells(obj._bloom), env.cells(g._bloom)), "cells-equal")
    k, m = obj.number_hashes, obj.number_bits
    probe = hv(ctx, "probe", k, m)
    a1, a2 = obj.check_alt(probe), g.check_alt(probe)
    ctx.check(ctx.eq(a1, a2) if counting else a1 is a2, "same-answer")
    table["probe key"] = probe          # the re-supplied strategy is the one the loaded filter hashes with
    b1, b2_ = obj.check("probe key"), g.check("probe key")
    ctx.check(ctx.eq(b1, b2_) if counting else b1 is b2_, "same-answer-by-key")
    if ch == "hex":
        ctx.check(ctx.all_eq(env.hex_payload(ctx, blob), env.hex_payload(ctx, g.export_hex())), "reexport-identical")
        # the hex payload carries the same cells and the same footer values as the bytes channel
        b2 = env.export_bytes(ctx, obj)
        hb, bb = env.hex_payload(ctx, blob), env.byte_vals(b2)
        n = len(bb) - 20
        ctx.check(len(hb) == len(bb) and ctx.fork(ctx.all_eq(hb[:n], _be_cells(ctx, bb[:n], 4 if counting else 1))), "channels-agree")
    else:
        ctx.check(env.blob_eq(ctx, blob, env.export_bytes(ctx, g)), "reexport-identical")
        ctx.check(env.blob_eq(ctx, blob, env.export_bytes(ctx, obj)), "channels-agree")
        ctx.check(len(blob) == obj.export_size(), "export-size")


def _be_cells(ctx, vals, size):
    """hex export writes the array in memory order (native little-endian cells): identical byte order"""
    return vals


def _expanding(ctx, cfg):
    env.setup(ctx, "bloom", "expanding")
    fs = env.FS(ctx, ["bloom", "expanding"])
    from probables import ExpandingBloomFilter, RotatingBloomFilter, BloomFilter
    from .c09 import sym_state
    rot = cfg["kind"] == "rot"
    est, L, rate = cfg["est"], cfg["L"], cfg.get("rate", 0.5)
    Q = cfg.get("Q", 3)
    table = {}
    FIXED = lambda key, depth=1: table.get(key, [3, 5, 7, 11, 13, 17, 19, 23, 29, 31])[:depth]  # noqa: E731,N806  (a hand-written strategy)
    obj = RotatingBloomFilter(est, rate, max_queue_size=Q, hash_function=FIXED) if rot else ExpandingBloomFilter(est, rate, hash_function=FIXED)
    cnt = sym_state(ctx, obj, L, est, BloomFilter)
    obj._added_elements = ctx.int("added", 0, 2 ** 64 - 1)
    cls = type(obj)
    if rot:
        fb = lambda b: RotatingBloomFilter.frombytes(b, max_queue_size=Q, hash_function=FIXED)  # noqa: E731
        fp = lambda p: RotatingBloomFilter(filepath=p, max_queue_size=Q, hash_function=FIXED)  # noqa: E731
    else:
        fb = lambda b: ExpandingBloomFilter.frombytes(b, hash_function=FIXED)  # noqa: E731
        fp = lambda p: ExpandingBloomFilter(filepath=p, hash_function=FIXED)  # noqa: E731
    g, blob = _load(ctx, obj, cfg["channel"], fs, fb, fp)
    ctx.check(type(g) is cls, "same-class")
    ctx.check(len(g._blooms) == L and g.estimated_elements == est and g.expansions == obj.expansions and
              all(x.number_bits == y.number_bits and x.number_hashes == y.number_hashes for x, y in zip(obj._blooms, g._blooms)), "geometry-equal")
    import struct
    ctx.check(g.false_positive_rate == struct.unpack("f", struct.pack("f", rate))[0], "rate-narrowed-to-float32")
    ctx.check(ctx.and_([ctx.eq(x.elements_added, y.elements_added) for x, y in zip(obj._blooms, g._blooms)] +
                       [ctx.eq(obj.elements_added, g.elements_added)]), "count-equal")
    ctx.check(ctx.and_([ctx.all_eq(env.cells(x._bloom), env.cells(y._bloom)) for x, y in zip(obj._blooms, g._blooms)]), "cells-equal")
    k, m = obj._blooms[0].number_hashes, obj._blooms[0].number_bits
    probe = hv(ctx, "probe", k, m)
    ctx.check(obj.check_alt(probe) is g.check_alt(probe), "same-answer")
    table["probe key"] = probe
    ctx.check(obj.check("probe key") is g.check("probe key") and ("probe key" in g) is obj.check("probe key"), "same-answer-by-key")
    ctx.check(env.blob_eq(ctx, blob, env.export_bytes(ctx, g)), "reexport-identical")
    ctx.check(env.blob_eq(ctx, blob, env.export_bytes(ctx, obj)), "channels-agree")
    if rot:
        ctx.check(g.max_queue_size == Q, "queue-limit-resupplied")


def _cms(ctx, cfg):
    env.setup(ctx, "cms")
    fs = env.FS(ctx, ["cms"])
    import probables
    w, d, kind = cfg["w"], cfg["d"], cfg["kind"]
    cls = getattr(probables, kind)
    kw = {"num_hitters": 2} if kind == "HeavyHitters" else {"threshold": 5} if kind == "StreamThreshold" else {}
    table = {}
    FIXED = lambda key, depth=1: table.get(key, [3, 5, 7, 11, 13, 17, 19, 23, 29, 31])[:depth]  # noqa: E731,N806
    obj = cls(width=w, depth=d, hash_function=FIXED, **kw)
    for j in range(w * d):
        obj._bins[j] = ctx.int(f"cell{j}", -2 ** 31, 2 ** 31 - 1)
    obj._CountMinSketch__elements_added = ctx.int("total", -2 ** 63, 2 ** 63 - 1)
    g, blob = _load(ctx, obj, cfg["channel"], fs, lambda b: cls.frombytes(b, hash_function=FIXED, **kw),
                    lambda p: cls(filepath=p, hash_function=FIXED, **kw))
    ctx.check(type(g) is cls, "same-class")
    ctx.check(g.query_type == obj.query_type, "same-query-type")
    ctx.check(g.width == w and g.depth == d and g.confidence == obj.confidence and g.error_rate == obj.error_rate, "geometry-equal")
    ctx.check(ctx.eq(g.elements_added, obj.elements_added), "count-equal")
    ctx.check(ctx.all_eq(env.cells(obj._bins), env.cells(g._bins)), "cells-equal")
    probe = [ctx.hashval(f"probe{i}", w) for i in range(d)]
    if type(g) is cls:      # comparing answers of different query types would only repeat the same-class finding
        ctx.check(ctx.eq(obj.check_alt(probe), g.check_alt(probe)), "same-answer")
        table["probe key"] = probe
        ctx.check(ctx.eq(obj.check("probe key"), g.check("probe key")), "same-answer-by-key")
    ctx.check(env.blob_eq(ctx, blob, env.export_bytes(ctx, g)), "reexport-identical")
    ctx.check(env.blob_eq(ctx, blob, env.export_bytes(ctx, obj)), "channels-agree")


def _cuckoo(ctx, cfg):
    from . import c03
    t = c03.build(ctx, cfg)
    f = t.f
    fs = env.FS(ctx, ["cuckoo", "countingcuckoo"])
    cls = type(f)
    g, blob = _load(ctx, f, cfg["channel"], fs, lambda b: cls.frombytes(b, hash_function=t.hf),
                    lambda p: cls(filepath=p, hash_function=t.hf))
    ctx.check(type(g) is cls, "same-class")
    ctx.check(g.capacity == f.capacity and g.bucket_size == f.bucket_size and g.max_swaps == f.max_swaps, "geometry-equal")
    t2 = c03.Tab()
    t2.ctx, t2.f, t2.counting = ctx, g, t.counting
    before, after = c03.stored(t), c03.stored(t2)
    sfx = "-zero-fingerprint" if cfg.get("zero") else ""
    ctx.check(len(before) == len(after) and ctx.fork(ctx.and_([ctx.and_(x[0] == y[0], ctx.eq(x[1], y[1]), ctx.eq(x[2], y[2])) for x, y in zip(before, after)])),
              "cuckoo-table-equal" + sfx)
    ctx.check(ctx.eq(g.elements_added, f.elements_added), "count-equal" + sfx)
    if len(before) == len(after):
        nfp = c03.new_key(t)
        a1 = f.check("new")
        a2 = g.check("new")
        ctx.check(ctx.eq(a1, a2) if t.counting else a1 is a2, "same-answer" + sfx)
        ctx.check(env.blob_eq(ctx, blob, env.export_bytes(ctx, g)), "reexport-identical" + sfx)
        again = c03.stored(t2)          # exporting the loaded filter leaves its table alone (C19 for loaded filters)
        ctx.check(len(again) == len(after) and
                  ctx.fork(ctx.and_([ctx.and_(x[0] == y[0], ctx.eq(x[1], y[1]), ctx.eq(x[2], y[2])) for x, y in zip(after, again)])),
                  "loaded-export-leaves-table" + sfx)
        ctx.check(all(len(b) <= g.bucket_size for b in g.buckets), "loaded-export-leaves-table" + sfx)
    ctx.check(env.blob_eq(ctx, blob, env.export_bytes(ctx, f)), "channels-agree")
    if cfg.get("rate"):
        # a filter sized by error rate: frombytes(b, error_rate) and load_error_rate(rate, path) restore the same fingerprint width
        e = cfg["rate"]
        o = cls.init_error_rate(e, capacity=f.capacity, bucket_size=f.bucket_size, max_swaps=f.max_swaps, hash_function=t.hf)
        b2 = env.export_bytes(ctx, o)
        calls = []

        def hf_rec(key, seed=0):     # the re-supplied strategy, recording what it is asked to hash
            calls.append(key)
            return 0x1234567 if key == "probe-rate" else t.hf(key, seed)
        g1 = cls.frombytes(b2, error_rate=e, hash_function=hf_rec)
        p = fs.path(0, "rate.bin")
        o.export(p)
        g2 = cls.load_error_rate(e, p, hash_function=hf_rec)
        for gx in (g1, g2):
            del calls[:]
            gx.check("probe-rate")
            ctx.check("probe-rate" in calls, "cuckoo-hash-function-resupplied")
        ctx.check(g1.fingerprint_size_bits == o.fingerprint_size_bits and g2.fingerprint_size_bits == o.fingerprint_size_bits and
                  g1.error_rate == e and g2.error_rate == e, "cuckoo-error-rate-resupplied")
    ctx.check(len(blob) == f.capacity * f.bucket_size * (8 if t.counting else 4) + 8, "export-size")


def roundtrip(ctx, cfg):
    kind = cfg["kind"]
    if kind in ("bloom", "cbf"):
        return _bloomlike(ctx, cfg)
    if kind in ("exp", "rot"):
        return _expanding(ctx, cfg)
    if kind in ("cuckoo", "ccuckoo"):
        return _cuckoo(ctx, cfg)
    return _cms(ctx, cfg)


HARNESS = {"c05.roundtrip": roundtrip}


def jobs(tier):
    js = []
    o = {"witnesses": 1}
    oc = {"index_concretize_limit": 8, "witnesses": 1}
    for est, fpr in [(1, .5), (3, .28), (3, .25), (3, .2), (4, .25), (5, .3), (5, .22)] + ([(10, .05)] if tier == "thorough" else []):
        for ch in CHANNELS:
            js.append({"h": "c05.roundtrip", "cfg": {"kind": "bloom", "est": est, "fpr": fpr, "channel": ch}, "opts": dict(o, cost=est)})
    for est, fpr in [(1, .5), (1, .3), (2, .3)] + ([(3, .2)] if tier == "thorough" else []):
        for ch in CHANNELS:
            js.append({"h": "c05.roundtrip", "cfg": {"kind": "cbf", "est": est, "fpr": fpr, "channel": ch}, "opts": dict(o, cost=est)})
    for kind, est, fpr in [("bloom", 3, .28), ("bloom", 3, .2), ("cbf", 1, .3), ("cbf", 2, .3)]:
        for ch in CHANNELS:
            js.append({"h": "c05.roundtrip", "cfg": {"kind": kind, "est": est, "fpr": fpr, "channel": ch, "second": True}, "opts": dict(o, cost=est)})
    for kind in ("exp", "rot"):
        for L in (1, 2, 3):
            for ch in CHANNELS[:4]:
                js.append({"h": "c05.roundtrip", "cfg": {"kind": kind, "est": 2, "L": L, "channel": ch}, "opts": dict(o, cost=L)})
        js.append({"h": "c05.roundtrip", "cfg": {"kind": kind, "est": 2, "L": 2, "rate": 0.3, "channel": "bytes"}, "opts": dict(o, cost=5)})
        for ch in ("bytes", "path"):      # sub-filters of a whole number of bytes: (3, .28) -> 8 bits, (5, .22) -> 16 bits
            js.append({"h": "c05.roundtrip", "cfg": {"kind": kind, "est": 3, "L": 2, "rate": 0.28, "channel": ch}, "opts": dict(o, cost=8)})
        js.append({"h": "c05.roundtrip", "cfg": {"kind": kind, "est": 5, "L": 3, "rate": 0.22, "channel": "bytes"}, "opts": dict(o, cost=20)})
        if tier == "thorough":
            js.append({"h": "c05.roundtrip", "cfg": {"kind": kind, "est": 3, "L": 2, "rate": 0.05, "channel": "bytes"}, "opts": dict(o, cost=50)})
    for kind in ("CountMinSketch", "CountMeanSketch", "CountMeanMinSketch", "HeavyHitters", "StreamThreshold"):
        for w, d in [(1, 1), (2, 2), (3, 2)] + ([(3, 3)] if tier == "thorough" else []):
            if kind == "CountMeanMinSketch" and w == 1:
                continue
            for ch in CHANNELS[:4]:
                js.append({"h": "c05.roundtrip", "cfg": {"kind": kind, "w": w, "d": d, "channel": ch}, "opts": dict(o, cost=w * d)})
    for counting in (False, True):
        for cap, bsz in [(1, 1), (2, 1), (2, 2), (3, 1)]:
            for occ in itertools.product(range(bsz + 1), repeat=cap):
                for ch in CHANNELS[:4]:
                    if ch != "bytes" and sum(occ) not in (0, cap * bsz):
                        continue
                    js.append({"h": "c05.roundtrip", "cfg": {"kind": "ccuckoo" if counting else "cuckoo", "cap": cap, "bsz": bsz, "swaps": 3,
                                                              "auto": True, "occ": list(occ), "counting": counting, "channel": ch}, "opts": dict(oc, cost=cap * bsz)})
        # a stored fingerprint equal to 0 (reachable: a key whose hash has zero low bits)
        for bsz in (1, 2, 3):
            js.append({"h": "c05.roundtrip", "cfg": {"kind": "ccuckoo" if counting else "cuckoo", "cap": 2, "bsz": bsz, "swaps": 3, "auto": True,
                                                      "occ": [1, 0], "counting": counting, "channel": "bytes", "rate": 0.01}, "opts": dict(oc)})
        for occ in ([1, 0], [1, 1]):
            js.append({"h": "c05.roundtrip", "cfg": {"kind": "ccuckoo" if counting else "cuckoo", "cap": 2, "bsz": 1, "swaps": 3, "auto": True,
                                                      "occ": occ, "counting": counting, "channel": "bytes", "zero": True}, "opts": dict(oc)})
    return js
