"""C14 - elements_added tracks the documented quantity through every operation.
The counter clauses ride on the mutator harnesses of C01-C04, C08-C12, C15, C16 (every one of them asserts the counter after
every single step); this module re-runs those jobs with the counter labels as its subject, adds the load-factor clauses and
decides the statistics clause (estimate_elements / current_false_positive_rate = the documented formulas)."""
from .. import env
from . import c01, c02, c03, c04, c08, c09, c10, c11, c12, c16

PROPERTY = "C14"
LEVEL = "model_checking"
STUBS = sorted(set(c01.STUBS + c02.STUBS + c03.STUBS + c04.STUBS + c11.STUBS)) + [
    "statistics: math.log / math.exp / math.pow -> uninterpreted functions over binary64 (their values are NOT modelled); "
    "BloomFilter._cnt_number_bits_set -> symbolic set-bit count X (popcount itself is decided in C13)"]
ASSUMPTIONS = [
    "counter clauses: see the assumptions of the harnesses this module re-runs (listed in job_list)",
    "statistics clause: the executed expression is compared, in IEEE binary64 with round-to-nearest, with the documented formulas int(-(m/k)*ln(1 - X/m)) and (1 - e^(-k*n/m))^k written independently over the same uninterpreted ln/exp/pow: only the formula STRUCTURE is decided, not the numerical accuracy of libm",
    "a counterexample of the statistics clause is replayed with the real math functions at the model's X / n and must differ from the documented formula by more than 1 (estimate) or 1e-9 relative (rate) to be reported",
]
BOUNDS = {
    "quick": "the quick job sets of the mutator harnesses named in job_list (counter labels count+1, total, count, count-stored, elements_added+1, cms-join-total, ...); load factors on cuckoo 2x1/2x2 and the 8-slot quotient filter; statistics on 63 bits/4 hashes and 1438 bits/10 hashes with X and n symbolic; X = popcount of the current bits (before / after clear, after a counter restored to an old value) on 2, 6, 8, 11 bits",
    "thorough": "the thorough job sets of the same harnesses",
    "outside": "numerical accuracy of ln/exp; structures larger than the configuration sets",
}
EXPECT_LABELS = {"quick": ["count+1", "total", "count", "count-stored", "elements_added+1", "cms-join-total", "cuckoo-load-factor",
                           "qf-load-factor", "estimate-is-documented-formula", "rate-is-documented-formula", "union-count-is-estimate", "ondisk-answers", "setbits-is-popcount"]}


def load_factor(ctx, cfg):
    t = c03.build(ctx, cfg)
    f = t.f
    lf = f.load_factor()
    num = f.unique_elements if t.counting else f.elements_added
    ctx.check(ctx.ratio_is(lf, num, f.capacity * f.bucket_size) if not isinstance(lf, float) or ctx.sym is False else lf == num / (f.capacity * f.bucket_size),
              "cuckoo-load-factor")


def qf_load_factor(ctx, cfg):
    env.setup(ctx, "qf", "utilities")
    from probables import QuotientFilter
    f = QuotientFilter(quotient=3, auto_expand=False)
    n = 0
    for i, q in enumerate(cfg["qs"]):
        x = c04._hash(ctx, f"r{i}", q)
        before = f.check_alt(x)
        f.add_alt(x)
        n += 0 if before else 1
        ctx.check(f.elements_added == n and f.load_factor == n / 8, "qf-load-factor")
    x = c04._hash(ctx, "rm", cfg["qs"][0])
    before = f.check_alt(x)
    f.remove_alt(x)
    n -= 1 if before else 0
    ctx.check(f.elements_added == n and f.load_factor == n / 8, "qf-load-factor")


def union_count(ctx, cfg):
    """union / intersection set elements_added to estimate_elements() of the result"""
    env.setup(ctx, "bloom", "countingbloom")
    from probables import BloomFilter, CountingBloomFilter
    sentinel = 424242
    for cls in (BloomFilter, CountingBloomFilter):
        a, b = cls(10, 0.05, hash_function=c12.FIXED), cls(10, 0.05, hash_function=c12.FIXED)
        a.add("x"), b.add("y")
        ctx.patch(BloomFilter, "estimate_elements", lambda self: sentinel)
        u, i = a.union(b), a.intersection(b)
        ctx.check(u.elements_added == sentinel and i.elements_added == sentinel, "union-count-is-estimate")
        ctx.check(a.elements_added == 1 and b.elements_added == 1, "operands-count-unchanged")
        ctx.unpatch_all()
        env.setup(ctx, "bloom", "countingbloom")


def setbits(ctx, cfg):
    """the set-bit count X the statistics are computed from is the population count of the CURRENT bit array - from an
    arbitrary state (any element counter, also 0 with bits set: the counter of a union is an estimate), after clear(), and
    after clear() followed by an add that brings the counter back to its old value (round 5: a count remembered per counter
    value).  X is read where estimate_elements reads it (BloomFilter._cnt_number_bits_set; the stats jobs replace exactly
    that call by a symbolic X)."""
    env.setup(ctx, "bloom")
    from .c01 import sym_bloom, bits_of, hv
    bf = sym_bloom(ctx, cfg["est"], cfg["fpr"])
    k, m = bf.number_hashes, bf.number_bits
    pop = lambda: ctx.sum([ctx.ite(b, 1, 0) for b in bits_of(ctx, bf)])  # noqa: E731
    n0 = bf.elements_added
    ctx.check(ctx.eq(bf._cnt_number_bits_set(), pop()), "setbits-is-popcount")
    bf.clear()
    ctx.check(ctx.eq(bf._cnt_number_bits_set(), 0), "setbits-is-popcount-after-clear")
    bf.add_alt(hv(ctx, "h", k, m))
    ctx.check(ctx.eq(bf._cnt_number_bits_set(), pop()), "setbits-is-popcount-after-clear-add")
    bf.elements_added = n0          # the documented setter (a caller restoring a saved counter)
    bf.add_alt(hv(ctx, "g", k, m))
    ctx.check(ctx.eq(bf._cnt_number_bits_set(), pop()), "setbits-is-popcount-after-clear-add")


def stats(ctx, cfg):
    from ..fpstats import run_stats
    return run_stats(ctx, cfg)


HARNESS = {"c14.load_factor": load_factor, "c14.qf_load_factor": qf_load_factor, "c14.union_count": union_count, "c14.stats": stats, "c14.setbits": setbits}
for _m in (c01, c02, c03, c04, c08, c09, c10, c11, c12, c16):
    HARNESS.update(_m.HARNESS)


def jobs(tier):
    import itertools
    js = []
    # (the 192- and 1438-bit geometries of C01's thorough tier say nothing more about the counter; their `bits-exact` query is near the solver limit)
    js += [j for j in c01.jobs(tier) if j["h"] in ("c01.step", "c01.wrappers", "c01.history") and j["cfg"]["est"] < 20]
    js += [j for j in c02.jobs(tier) if j["h"] in ("c02.step", "c02.wrappers")]
    js += c03.scoped([j for j in c03.jobs(tier) if j["h"].split(".")[1].replace("cc_", "") in ("add", "remove", "expand")
                      and not (j["cfg"]["auto"] and j["cfg"]["cap"] * j["cfg"]["bsz"] > 1)], "count")
    js += [j for j in c04.jobs(tier) if j["h"] in ("c04.history", "c04.merge") and len(j["cfg"].get("shape", "xx")) <= 2]
    js += [j for j in c04.jobs(tier) if j["h"] == "c04.resize" and j["cfg"]["shape"] in ("AAG", "AAGS")]
    js += [j for j in c08.jobs(tier) if j["h"] in ("c08.step",)]
    js += [j for j in c09.jobs(tier) if j["h"] in ("c09.step", "c09.push")]
    js += [j for j in c10.jobs(tier) if j["h"] in ("c10.window",)]
    js += [j for j in c11.jobs(tier) if j["h"] in ("c11.history", "c11.reopen", "c11.add_crash", "c11.clear", "c11.close_updates")]
    js += [j for j in c12.jobs(tier) if j["h"] == "c12.cms_join"]
    js += [j for j in c16.jobs(tier) if j["h"] in ("c16.cms", "c16.cbf_add") and j["cfg"].get("w", 1) * j["cfg"].get("d", 1) <= 4]
    for counting in (False, True):
        for cap, bsz in [(2, 1), (2, 2)]:
            for occ in itertools.product(range(bsz + 1), repeat=cap):
                js.append({"h": "c14.load_factor", "cfg": {"cap": cap, "bsz": bsz, "swaps": 1, "auto": False, "occ": list(occ), "counting": counting},
                           "opts": {"index_concretize_limit": 8, "witnesses": 1}})
    for qs in itertools.product(range(8), repeat=2):
        js.append({"h": "c14.qf_load_factor", "cfg": {"qs": list(qs)}, "opts": {"witnesses": 1}})
    js.append({"h": "c14.union_count", "cfg": {}, "opts": {"no_witness": True}})
    from . import c05
    HARNESS.setdefault("c05.roundtrip", c05.roundtrip)
    js += [j for j in c05.jobs(tier) if j["cfg"].get("kind") in ("ccuckoo", "cuckoo", "CountMinSketch", "cbf", "exp") and j["cfg"].get("channel") == "bytes"
           and not j["cfg"].get("zero")]
    for est, fpr in [(1, .5), (2, .3), (3, .28), (3, .2)]:
        js.append({"h": "c14.setbits", "cfg": {"est": est, "fpr": fpr}, "opts": {"witnesses": 1}})
    for m, k in [(63, 4), (1438, 10)]:
        for which in ("estimate", "rate"):
            js.append({"h": "c14.stats", "cfg": {"m": m, "k": k, "which": which}, "opts": {"cost": 10000, "timeout_ms": 300000, "no_witness": True}})
    return js
