"""C16 - counters saturate at their integer limits instead of wrapping or failing.  Shape (K)/(I) at the limits."""
from .. import env

PROPERTY = "C16"
CROSS_CHECK = True      # thorough: dumped assertion queries are re-decided by z3 4.8.12 and cvc5 1.0
LEVEL = "model_checking"
STUBS = ["array -> SymArray ('i' count-min, 'I' counting Bloom) raising OverflowError outside the typecode range, as array.array does",
         "Struct -> SymStruct raising struct.error outside the field range"]
ASSUMPTIONS = [
    "count-min cells arbitrary in the whole int32 range and the total arbitrary in the int64 range (every such state is reachable with add/remove of large amounts)",
    "counting-Bloom add/union/intersection: cells arbitrary in [0, 2^32-1] (reachable: add with a suitable amount per cell pattern)",
    "counting-Bloom remove: cells under the multiset invariant extended with saturation (cell = 2^32-1 or cell = sum of the true counts of the keys on it), removal amount <= true count; free cells would admit over-removals no legitimate history performs",
    "amounts from 1 to 2^65; hash positions may coincide",
]
BOUNDS = {
    "quick": "count-min 1x1, 2x2, 3x2 (join: 1x1, 2x2); counting Bloom (est,fpr)->cells/hashes (1,.5)->2/1, (1,.3)->3/2, (2,.3)->6/2; export->load of a saturated state on the small geometries",
    "thorough": "adds count-min 3x3 and counting Bloom (3,.2)->11/3 for add/remove (union/intersection stay at <= 6 cells)",
    "outside": "larger geometries (the clamp code is per cell and independent of the geometry, but that is not decided here)",
}
EXPECT_LABELS = {"quick": ["cms-cell=clamp(spec)", "cms-total-clamped", "cms-return=check", "cms-exportable", "cms-join-cell=clamp(spec)",
                           "cbf-add-cell=clamp(spec)", "cbf-saturated-never-decremented", "cbf-union-cell=clamp(sum)", "cbf-reload-same"]}
U32, IMAX, IMIN, I64MAX, I64MIN, U64 = 2 ** 32 - 1, 2 ** 31 - 1, -2 ** 31, 2 ** 63 - 1, -2 ** 63, 2 ** 64 - 1


def clamp(ctx, x, lo, hi):
    return ctx.ite(ctx.gt(x, hi), hi, ctx.ite(ctx.lt(x, lo), lo, x))


def cms(ctx, cfg):
    env.setup(ctx, "cms")
    from probables import CountMinSketch
    op, w, d = cfg["op"], cfg["w"], cfg["d"]
    c = CountMinSketch(width=w, depth=d)
    for j in range(w * d):
        c._bins[j] = ctx.int(f"cell{j}", IMIN, IMAX)
    tot = ctx.int("total", I64MIN, I64MAX)
    c._CountMinSketch__elements_added = tot
    pre = env.cells(c._bins)
    n = ctx.int("n", 1, 2 ** 65)
    hv = [ctx.hashval(f"h{i}", w) for i in range(d)]
    try:
        if op == "add":
            r, sgn = c.add_alt(hv, n), 1
        elif op == "remove":
            r, sgn = c.remove_alt(hv, n), -1
        else:
            c2 = CountMinSketch(width=w, depth=d)
            for j in range(w * d):
                c2._bins[j] = ctx.int(f"other{j}", IMIN, IMAX)
            t2 = ctx.int("total2", I64MIN, I64MAX)
            c2._CountMinSketch__elements_added = t2
            pre2 = env.cells(c2._bins)
            c.join(c2)
    except (OverflowError, ValueError, TypeError) as e:
        ctx.check(False, f"cms-returns-normally:{op}:{type(e).__name__}")
        return
    post = env.cells(c._bins)
    if op in ("add", "remove"):
        conds = []
        for i in range(d):
            for col in range(w):
                j = i * w + col
                hit = ctx.eq(hv[i] % w, col)
                conds.append(ctx.eq(post[j], ctx.ite(hit, clamp(ctx, pre[j] + sgn * n, IMIN, IMAX), pre[j])))
        ctx.check(ctx.and_(conds), "cms-cell=clamp(spec)")
        ctx.check(ctx.eq(c.elements_added, clamp(ctx, tot + sgn * n, I64MIN, I64MAX)), "cms-total-clamped")
        ctx.check(ctx.eq(r, c.check_alt(hv)), "cms-return=check")
    else:
        conds = []
        for j in range(w * d):
            a, b = pre[j], pre2[j]
            conds.append(ctx.eq(post[j], ctx.ite(ctx.or_(ctx.eq(a, IMIN), ctx.eq(a, IMAX)), a, clamp(ctx, a + b, IMIN, IMAX))))
        ctx.check(ctx.and_(conds), "cms-join-cell=clamp(spec)")
        ctx.check(ctx.eq(c.elements_added, clamp(ctx, tot + t2, I64MIN, I64MAX)), "cms-join-total-clamped")
        ctx.check(ctx.and_(ctx.all_eq(pre2, env.cells(c2._bins)), ctx.eq(c2.elements_added, t2)), "cms-join-second-unchanged")
    ctx.check(ctx.and_([ctx.and_(ctx.ge(x, IMIN), ctx.le(x, IMAX)) for x in post] +
                       [ctx.ge(c.elements_added, I64MIN), ctx.le(c.elements_added, I64MAX)]), "cms-exportable")
    if cfg.get("reload"):
        g = CountMinSketch.frombytes(env.export_bytes(ctx, c))
        ctx.check(ctx.and_(ctx.all_eq(post, env.cells(g._bins)), ctx.eq(g.elements_added, c.elements_added)), "cms-reload-same")


def _cbf(ctx, cfg, tag=""):
    from probables import CountingBloomFilter
    c = CountingBloomFilter(est_elements=cfg["est"], false_positive_rate=cfg["fpr"],
                            hash_function=lambda key, depth=1: [3, 5, 7, 11, 13][:depth])
    for j in range(c.number_bits):
        c._bloom[j] = ctx.int(f"{tag}cell{j}", 0, U32)
    return c


def cbf_add(ctx, cfg):
    env.setup(ctx, "bloom", "countingbloom")
    c = _cbf(ctx, cfg)
    m, k = c.number_bits, c.number_hashes
    tot = ctx.int("total", 0, U64)
    c.elements_added = tot
    pre = env.cells(c._bloom)
    n = ctx.int("n", 1, 2 ** 65)
    hv = [ctx.hashval(f"h{i}", m) for i in range(k)]
    pos = [h % m for h in hv]
    try:
        r = c.add_alt(hv, n)
    except OverflowError:
        post = env.cells(c._bloom)
        ctx.check(False, "cbf-add-returns-normally")
        return
    post = env.cells(c._bloom)
    conds = []
    for j in range(m):
        mult = ctx.sum([ctx.ite(ctx.eq(p, j), 1, 0) for p in pos])
        conds.append(ctx.eq(post[j], clamp(ctx, pre[j] + mult * n, 0, U32)))
    ctx.check(ctx.and_(conds), "cbf-add-cell=clamp(spec)")
    ctx.check(ctx.eq(c.elements_added, clamp(ctx, tot + n, 0, U64)), "cbf-total-clamped")
    ctx.check(ctx.and_(ctx.ge(r, 0), ctx.le(r, U32)), "cbf-add-returns-pinned-value")
    ctx.check(ctx.and_([ctx.implies(ctx.eq(a, U32), ctx.eq(b, U32)) for a, b in zip(pre, post)]), "cbf-saturated-stays")
    if cfg.get("reload"):
        from probables import CountingBloomFilter
        g = CountingBloomFilter.frombytes(env.export_bytes(ctx, c))
        ctx.check(ctx.and_(ctx.all_eq(post, env.cells(g._bloom)), ctx.eq(g.elements_added, c.elements_added)), "cbf-reload-same")


def cbf_remove(ctx, cfg):
    env.setup(ctx, "bloom", "countingbloom")
    from probables import CountingBloomFilter
    K = cfg["K"]
    c = CountingBloomFilter(est_elements=cfg["est"], false_positive_rate=cfg["fpr"])
    m, k = c.number_bits, c.number_hashes
    H = [[ctx.hashval(f"h{q}_{i}", m) for i in range(k)] for q in range(K)]
    Tc = [ctx.int(f"true{q}", 0, 2 ** 33) for q in range(K)]
    pos = [[H[q][i] % m for i in range(k)] for q in range(K)]

    def spec(col, TT):
        return ctx.sum([ctx.ite(ctx.eq(p, col), TT[q], 0) for q in range(K) for p in pos[q]])
    sat = []
    for col in range(m):
        s_ = ctx.int(f"sat{col}", 0, 1)
        sp = spec(col, Tc)
        ctx.assume(ctx.implies(ctx.gt(sp, U32 - 1), ctx.eq(s_, 1)))
        c._bloom[col] = ctx.ite(ctx.eq(s_, 1), U32, sp)
        sat.append(s_)
    c.elements_added = ctx.sum(Tc)
    n = ctx.int("n", 1, 2 ** 65)
    ctx.assume(ctx.le(n, Tc[0]))
    pre = env.cells(c._bloom)
    try:
        r = c.remove_alt(H[0], n)
    except OverflowError:
        ctx.check(False, "cbf-remove-returns-normally")
        return
    post = env.cells(c._bloom)
    ctx.check(ctx.and_([ctx.implies(ctx.eq(a, U32), ctx.eq(b, U32)) for a, b in zip(pre, post)]), "cbf-saturated-never-decremented")
    reported_pinned = ctx.and_([ctx.or_(ctx.and_([ctx.ne(p, col) for p in pos[0]]), ctx.eq(sat[col], 1)) for col in range(m)])   # every cell of key 0 saturated
    T2 = [Tc[0] - n] + Tc[1:]
    ctx.check(ctx.implies(ctx.not_(reported_pinned),
                          ctx.and_([ctx.eq(post[col], ctx.ite(ctx.eq(sat[col], 1), U32, spec(col, T2))) for col in range(m)])),
              "cbf-remove-follows-invariant")
    ctx.check(ctx.implies(reported_pinned, ctx.and_(ctx.eq(r, U32), ctx.all_eq(pre, post))), "cbf-remove-pinned-key-noop")


def cbf_merge(ctx, cfg):
    env.setup(ctx, "bloom", "countingbloom")
    a, b = _cbf(ctx, cfg, "a."), _cbf(ctx, cfg, "b.")
    pa, pb = env.cells(a._bloom), env.cells(b._bloom)
    if ctx.sym:
        ctx.patch(env.mod("bloom").BloomFilter, "estimate_elements", lambda self: 0)
    op = cfg["op"]
    try:
        res = a.union(b) if op == "union" else a.intersection(b)
    except OverflowError:
        ctx.check(False, f"cbf-{op}-returns-normally")
        return
    ctx.check(res is not None, "cbf-merge-compatible")
    post = env.cells(res._bloom)
    if op == "union":
        ctx.check(ctx.and_([ctx.eq(r, clamp(ctx, x + y, 0, U32)) for r, x, y in zip(post, pa, pb)]), "cbf-union-cell=clamp(sum)")
    else:
        ctx.check(ctx.and_([ctx.eq(r, ctx.ite(ctx.and_(ctx.gt(x, 0), ctx.gt(y, 0)), clamp(ctx, x + y, 0, U32), 0)) for r, x, y in zip(post, pa, pb)]),
                  "cbf-intersection-cell=clamp(sum)")
    ctx.check(ctx.and_(ctx.all_eq(pa, env.cells(a._bloom)), ctx.all_eq(pb, env.cells(b._bloom))), "cbf-merge-operands-unchanged")


HARNESS = {"c16.cms": cms, "c16.cbf_add": cbf_add, "c16.cbf_remove": cbf_remove, "c16.cbf_merge": cbf_merge}


def jobs(tier):
    js = []
    geos = [(1, 1), (2, 2), (3, 2)] + ([(3, 3)] if tier == "thorough" else [])
    for w, d in geos:
        for op in ("add", "remove"):
            js.append({"h": "c16.cms", "cfg": {"op": op, "w": w, "d": d, "reload": w * d <= 4}, "opts": {"cost": w * d}})
    for w, d in [(1, 1), (2, 2)]:
        js.append({"h": "c16.cms", "cfg": {"op": "join", "w": w, "d": d}, "opts": {"cost": 50}})
    cg = [(1, .5), (1, .3), (2, .3)] + ([(3, .2)] if tier == "thorough" else [])
    for est, fpr in cg:
        js.append({"h": "c16.cbf_add", "cfg": {"est": est, "fpr": fpr, "reload": est == 1}, "opts": {"cost": est * 10}})
        for K in (1, 2):
            js.append({"h": "c16.cbf_remove", "cfg": {"est": est, "fpr": fpr, "K": K}, "opts": {"cost": est * 20 * K}})
        for op in ("union", "intersection"):
            if est <= 2:        # intersection forks three ways per cell: 11 cells do not finish in 10 min
                js.append({"h": "c16.cbf_merge", "cfg": {"est": est, "fpr": fpr, "op": op}, "opts": {"cost": est * 10}})
    return js
