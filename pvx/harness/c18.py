"""C18 - hash strategies are deterministic, prefix-stable and match reference FNV-1a.  Shape (K): the real functions of
probables.hashes run once over wide bit-vector proxies; every obligation is a closed QF_BV / LIA formula."""
from .. import env

PROPERTY = "C18"
CROSS_CHECK = True      # thorough: dumped assertion queries are re-decided by z3 4.8.12 and cvc5 1.0
LEVEL = "proof"
TECHNIQUE = "symbolic execution of the real hash functions over 136-bit bit-vectors with no-overflow side obligations; QF_BV equivalence against the published FNV-1a written as 64/32-bit arithmetic (z3)"
STUBS = ["hashes.ord -> code point of a symbolic character", "hashes.md5 / hashes.sha256 -> pure stub returning 16/32 symbolic digest bytes per distinct input",
         "hashes.unpack -> SymStruct", "decorated user function -> uninterpreted pure function"]
TRUSTED = ["z3 (QF_BV, LIA)", "pvx SBV proxy: Python ints modelled by 136-bit vectors, exactness discharged by the 'wide-model-exact' obligations",
           "the reference FNV-1a in this file (offset basis 14695981039346656037 / 0x811C9DC5, primes 1099511628211 / 0x01000193, seed advances the basis by 31 per index)",
           "md5/sha256 digests are arbitrary byte strings (their C implementations are not analysed)"]
ASSUMPTIONS = [
    "byte keys of bounded length (the bound is the unrolling; the loop body itself is covered for EVERY 64-bit state by the length-1 obligations together with 'every-state-is-an-initial-state')",
    "seeds in [0, 2^70) (covers every depth index and hand-passed large seeds)",
    "text keys: code points < 128 (the property claims FNV text = UTF-8 bytes only for ASCII)",
]
BOUNDS = {
    "quick": "key length 0..8 bytes, all seeds < 2^70; depth 1..3 and 33, 64, 65, 130 (keys of 0..2 bytes); decorators with depth 1..3, digests symbolic, key handling on 'some key' and a fixed list of 9 text keys (accents composed/decomposed, compatibility characters, jamo, astral, NUL)",
    "thorough": "key length 0..16 bytes",
    "outside": "keys longer than the bound are covered only through the per-iteration argument stated in ASSUMPTIONS; digest internals",
}
EXPECT_LABELS = {"quick": ["fnv64==reference", "fnv32==reference", "range64", "wide-model-exact", "text==bytes", "depth-prefix",
                           "depth-element-is-seeded-fnv", "every-state-is-an-initial-state", "bytes-decorator-le64", "int-decorator-chain",
                           "md5-str==bytes", "decorator-prefix", "pure-bytes-after-text", "pure-same-answer-again"]}
OFF64, P64 = 14695981039346656037, 1099511628211
OFF32, P32 = 0x811C9DC5, 0x01000193
INV31_64 = pow(31, -1, 2 ** 64)


class BytesKey:
    """bytes-like key whose iteration yields byte proxies"""
    def __init__(self, vals):
        self.vals = vals

    def __iter__(self):
        return iter(self.vals)

    def __len__(self):
        return len(self.vals)


class SymChar(str):
    pass


class SymText(str):
    def __new__(cls, vals):
        o = super().__new__(cls, "?" * len(vals))
        o.vals = vals
        return o

    def __iter__(self):
        for v in self.vals:
            c = SymChar("?")
            c.cp = v
            yield c


def _unpack_key(fmt, data):
    """struct.unpack over the symbolic byte key: unsigned byte codes give the byte proxies; a signed code forks on the sign bit,
    and a negative value leaves the wide (non-negative) model - the engine then replays that path's inputs on the real code"""
    from .. import shims
    from .. import engine
    from ..engine import Unsupported
    if not isinstance(data, BytesKey):
        return shims.unpack_shim(fmt, data)
    code = fmt.lstrip("<>=@!").lstrip("0123456789")
    if code not in ("B", "b", "c") or len(fmt.lstrip("<>=@!")) - len(code) > 4:
        raise Unsupported(f"struct.unpack({fmt!r}) over a symbolic key")
    if code == "b":
        import z3
        for v in data.vals:
            if engine.CUR.fork(z3.UGE(v.t, z3.BitVecVal(128, v.t.size()))):
                raise Unsupported("negative byte value (signed struct code) in the non-negative wide-int model")
    elif code == "c":
        raise Unsupported("struct code 'c' over a symbolic key")
    return tuple(data.vals)


class _MemView:
    """memoryview(key) over the symbolic byte key (cast to an unsigned / signed byte view)"""
    def __init__(self, data):
        if not isinstance(data, BytesKey):
            from ..engine import Unsupported
            raise Unsupported("memoryview of a non-key object")
        self.data = data

    def cast(self, fmt, *a):
        return _unpack_key(f"{len(self.data)}{fmt}", self.data)

    def __iter__(self):
        return iter(self.data)

    def __len__(self):
        return len(self.data)


def _keys(ctx, bs):
    """(bytes key, text key) for the byte values bs"""
    if ctx.sym:
        H = env.mod_hashes()
        ctx.patch(H, "ord", lambda c: c.cp if isinstance(c, SymChar) else ord(c))
        ctx.patch(H, "unpack", _unpack_key)
        ctx.patch(H, "memoryview", _MemView)
        return BytesKey([ctx.wide(b) for b in bs]), SymText([ctx.wide(b) for b in bs])
    raw = bytes(ctx.wide(b) for b in bs)
    return raw, raw.decode("latin-1")


def ref_fnv(ctx, bs, seed, off, prime, w):
    h = ctx.bvconst(off, w) + ctx.bvconst(31, w) * seed.trunc(w)
    for b in bs:
        h = (h ^ b.zext(w)) * ctx.bvconst(prime, w)
    return h


def fnv(ctx, cfg):
    H = env.mod_hashes()
    n = cfg["len"]
    bs = [ctx.bv(f"b{i}", 8) for i in range(n)]
    seed = ctx.bv("seed", 70)
    key, text = _keys(ctx, bs)
    out = H.fnv_1a(key, ctx.wide(seed))
    ctx.check(ctx.no_overflow(), "wide-model-exact")
    ctx.check(ctx.fits(out, 64), "range64")
    ctx.check(ctx.narrow(out, 64).eq(ref_fnv(ctx, bs, seed, OFF64, P64, 64)), "fnv64==reference")
    out32 = H.fnv_1a_32(key, ctx.wide(seed))
    ctx.check(ctx.no_overflow(), "wide-model-exact")
    ctx.check(ctx.fits(out32, 32), "range32")
    ctx.check(ctx.narrow(out32, 32).eq(ref_fnv(ctx, bs, seed, OFF32, P32, 32)), "fnv32==reference")
    ctx.check(ctx.same_int(H.fnv_1a(key, ctx.wide(seed)), out), "deterministic")
    if cfg.get("text"):
        ctx.assume(ctx.and_([b.ult(128) for b in bs]))
        ctx.check(ctx.same_int(H.fnv_1a(text, ctx.wide(seed)), out), "text==bytes")
        ctx.check(ctx.same_int(H.fnv_1a_32(text, ctx.wide(seed)), out32), "text==bytes")
        ctx.no_overflow()


def depth(ctx, cfg):
    H = env.mod_hashes()
    n, d = cfg["len"], cfg["depth"]
    bs = [ctx.bv(f"b{i}", 8) for i in range(n)]
    key, text = _keys(ctx, bs)
    res = H.default_fnv_1a(key, d)
    ctx.check(isinstance(res, list) and len(res) == d, "depth-length")
    ctx.check(ctx.and_([ctx.fits(r, 64) for r in res]), "range64")
    ctx.check(ctx.and_([ctx.narrow(r, 64).eq(ref_fnv(ctx, bs, ctx.bvconst(i, 70), OFF64, P64, 64)) for i, r in enumerate(res)]),
              "depth-element-is-seeded-fnv")
    for d2 in (range(1, d) if not cfg.get("big") else (1, d // 2, d - 1)):
        res2 = H.default_fnv_1a(key, d2)
        ctx.check(len(res2) == d2 and ctx.fork(ctx.and_([ctx.same_int(a, b) for a, b in zip(res, res2)])), "depth-prefix")
    ctx.assume(ctx.and_([b.ult(128) for b in bs]))
    rt = H.default_fnv_1a(text, d)
    ctx.check(len(rt) == d and ctx.fork(ctx.and_([ctx.same_int(a, b) for a, b in zip(res, rt)])), "text==bytes")
    ctx.check(ctx.no_overflow(), "wide-model-exact")


def pure(ctx, cfg):
    """'a pure function of (key, depth)': the answer for a key does not depend on what was hashed before - in particular not on
    the TEXT whose UTF-8 encoding is exactly this byte key (one code point 0x80..0x7FF <-> a two-byte key), nor on the depth
    asked for in the earlier call"""
    H = env.mod_hashes()
    d, d0 = cfg["depth"], cfg["first_depth"]
    b0, b1 = ctx.bv("b0", 8), ctx.bv("b1", 8)
    ctx.assume(ctx.and_(ctx.not_(b0.ult(0xC2)), b0.ult(0xE0), ctx.not_(b1.ult(0x80)), b1.ult(0xC0)))
    cp = ((ctx.wide(b0) & 0x1F) << 6) | (ctx.wide(b1) & 0x3F)
    if ctx.sym:
        _keys(ctx, [b0, b1])        # installs the shims
        key, text = BytesKey([ctx.wide(b0), ctx.wide(b1)]), SymText([cp])
    else:
        key, text = bytes([ctx.wide(b0), ctx.wide(b1)]), chr(cp)
    first, second = (text, key) if cfg["text_first"] else (key, text)
    r1 = H.default_fnv_1a(first, d0)
    r2 = H.default_fnv_1a(second, d)
    r3 = H.default_fnv_1a(first, d)
    rb = r2 if cfg["text_first"] else r3
    ctx.check(len(rb) == d and ctx.fork(ctx.and_([ctx.narrow(r, 64).eq(ref_fnv(ctx, [b0, b1], ctx.bvconst(i, 70), OFF64, P64, 64))
                                                    for i, r in enumerate(rb)])), "pure-bytes-after-text")
    ctx.check(len(r3) == d and len(r1) == d0 and ctx.fork(ctx.and_([ctx.same_int(a, b) for a, b in zip(r1, r3)])), "pure-same-answer-again")
    ctx.check(ctx.no_overflow(), "wide-model-exact")


def surjective(ctx, cfg):
    """every 64-bit value is the loop's initial state for some seed, so the length-1 obligations cover the loop body from
    every state (31 is odd, hence invertible modulo 2^64 / 2^32)"""
    H = env.mod_hashes()
    for w, off, fn in ((64, OFF64, H.fnv_1a), (32, OFF32, H.fnv_1a_32)):
        h0 = ctx.bv(f"h0_{w}", w)
        inv = pow(31, -1, 2 ** w)
        seed = (h0 - off) * inv                       # w-bit arithmetic
        out = fn(_keys(ctx, [])[0], ctx.wide(seed))   # empty key: returns the initial state
        ctx.check(ctx.narrow(out, w).eq(h0), "every-state-is-an-initial-state")
        ctx.check(ctx.no_overflow(), "wide-model-exact")


# ---- decorators -------------------------------------------------------------------------------------------------
class _Digests:
    """pure stub for md5/sha256/user byte functions: one symbolic digest per distinct input token (sym), real hashlib otherwise"""
    def __init__(self, ctx, size, name):
        self.ctx, self.size, self.name, self.memo, self.log, self.keep = ctx, size, name, {}, [], []

    def token(self, data):
        if isinstance(data, (bytes, bytearray)):
            return ("v", bytes(data))
        self.keep.append(data)
        return ("id", id(data))

    def digest(self, data, idx=None):
        k = (self.token(data), idx)
        if k not in self.memo:
            n = len(self.memo)
            if self.ctx.sym:
                from ..shims import SymBytes
                self.memo[k] = SymBytes([(self.ctx.int(f"{self.name}{n}_{i}", 0, 255), 1, False) for i in range(self.size)])
            else:
                import hashlib
                self.memo[k] = hashlib.sha256(repr((bytes(data), idx)).encode()).digest()[: self.size]
        self.log.append(self.memo[k])
        return self.memo[k]


def _le64(ctx, dig):
    return ctx.sum([b * (1 << (8 * i)) for i, b in enumerate(env.byte_vals(dig)[:8])])


# text keys on which the key handling of the decorators is exercised (it is concrete string code; the digests stay symbolic):
# ASCII, empty, precomposed / decomposed accents, compatibility characters, conjoining jamo, an astral character, NUL, a ligature
TEXT_KEYS = ["", "caf\u00e9", "cafe\u0301", "\u212b", "\u1100\u1161\u11a8", "\U0001f600", "a\x00b", "\ufb01", "\u00df\u0130"]


def bytes_decorator(ctx, cfg):
    H = env.mod_hashes()
    if ctx.sym:
        from .. import shims
        ctx.patch(H, "unpack", shims.unpack_shim)
    d = cfg["depth"]
    dg = _Digests(ctx, cfg.get("size", 16), "dg")
    f = H.hash_with_depth_bytes(lambda key, idx: dg.digest(key, idx))
    for d0 in range(1, d):           # the same key asked for with increasing depths first (a strategy must not depend on earlier calls)
        f(b"some key", d0)
    dg.log.clear()
    res = f(b"some key", d)
    ctx.check(len(res) == d, "depth-length")
    ctx.check(ctx.and_([ctx.and_(ctx.ge(r, 0), ctx.lt(r, 2 ** 64)) for r in res]), "range64")
    ctx.check(ctx.and_([len(dg.log) == d] + [ctx.eq(r, _le64(ctx, g)) for r, g in zip(res, dg.log)]), "bytes-decorator-le64")
    rs = f("some key", d)
    ctx.check(len(rs) == d and ctx.fork(ctx.and_([ctx.eq(a, b) for a, b in zip(res, rs)])), "str==utf8-bytes")
    for tk in TEXT_KEYS:
        ra, rb = f(tk, d), f(tk.encode("utf-8"), d)
        ctx.check(len(ra) == d and len(rb) == d and ctx.fork(ctx.and_([ctx.eq(a, b) for a, b in zip(ra, rb)])), "str==utf8-bytes")
    for d2 in range(1, d):
        r2 = f(b"some key", d2)
        ctx.check(len(r2) == d2 and ctx.fork(ctx.and_([ctx.eq(a, b) for a, b in zip(res, r2)])), "decorator-prefix")


def shipped_digest(ctx, cfg):
    """default_md5 / default_sha256 with the digest a pure stub (sym) or the real hashlib (concrete)"""
    import hashlib
    H = env.mod_hashes()
    name, size, d = cfg["algo"], {"md5": 16, "sha256": 32}[cfg["algo"]], cfg["depth"]
    dg = _Digests(ctx, size, name)
    if ctx.sym:
        from .. import shims
        ctx.patch(H, "unpack", shims.unpack_shim)

        class _Stub:
            def __init__(self, data):
                self.data = data

            def digest(self):
                return dg.digest(self.data)
        ctx.patch(H, name, _Stub)
    fn = getattr(H, "default_" + name)
    res = fn(b"some key", d)
    ctx.check(len(res) == d, "depth-length")
    ctx.check(ctx.and_([ctx.and_(ctx.ge(r, 0), ctx.lt(r, 2 ** 64)) for r in res]), "range64")
    if ctx.sym:
        ctx.check(ctx.and_([ctx.eq(r, _le64(ctx, g)) for r, g in zip(res, dg.log)]), "bytes-decorator-le64")
    else:
        tmp, want = b"some key", []
        for _ in range(d):
            tmp = getattr(hashlib, name)(tmp).digest()
            want.append(int.from_bytes(tmp[:8], "little"))
        ctx.check(res == want, "bytes-decorator-le64")
    rs = fn("some key", d)
    ctx.check(len(rs) == d and ctx.fork(ctx.and_([ctx.eq(a, b) for a, b in zip(res, rs)])), "md5-str==bytes")
    for tk in TEXT_KEYS:
        ra, rb = fn(tk, d), fn(tk.encode("utf-8"), d)
        ctx.check(len(ra) == d and len(rb) == d and ctx.fork(ctx.and_([ctx.eq(a, b) for a, b in zip(ra, rb)])), "md5-str==bytes")
    for d2 in range(1, d):
        r2 = fn(b"some key", d2)
        ctx.check(len(r2) == d2 and ctx.fork(ctx.and_([ctx.eq(a, b) for a, b in zip(res, r2)])), "decorator-prefix")


def int_decorator(ctx, cfg):
    H = env.mod_hashes()
    d = cfg["depth"]
    calls = []

    def token(key):
        if hasattr(key, "sym"):
            return key.sym
        if isinstance(key, str) and key != "some key":
            return int(key, 16)
        return -1

    def user(key, idx):
        v = ctx.uf(f"F{idx}", token(key), 0, 2 ** 64 - 1)
        calls.append((idx, key, v))
        return v
    f = H.hash_with_depth_int(user)
    res = f("some key", d)
    ctx.check(len(res) == d, "depth-length")
    want = [ctx.uf("F0", -1, 0, 2 ** 64 - 1)]
    for i in range(1, d):
        want.append(ctx.uf(f"F{i}", want[-1], 0, 2 ** 64 - 1))
    ctx.check(ctx.and_([ctx.eq(a, b) for a, b in zip(res, want)]), "int-decorator-chain")
    ctx.check([c[0] for c in calls] == list(range(d)), "int-decorator-indices")
    for d2 in range(1, d):
        r2 = f("some key", d2)
        ctx.check(len(r2) == d2 and ctx.fork(ctx.and_([ctx.eq(a, b) for a, b in zip(res, r2)])), "decorator-prefix")


HARNESS = {"c18.fnv": fnv, "c18.depth": depth, "c18.surjective": surjective, "c18.bytes_decorator": bytes_decorator,
           "c18.shipped_digest": shipped_digest, "c18.int_decorator": int_decorator, "c18.pure": pure}


def jobs(tier):
    maxlen = 8 if tier == "quick" else 16
    js = [{"h": "c18.surjective", "cfg": {}}]
    for n in range(0, maxlen + 1):
        js.append({"h": "c18.fnv", "cfg": {"len": n, "text": True}, "opts": {"cost": 2 ** n, "max_seconds": 3000, "timeout_ms": 600000}})
    for n in (0, 1, 2, 4) if tier == "quick" else (0, 1, 2, 4, 8):
        for d in (1, 2, 3):
            js.append({"h": "c18.depth", "cfg": {"len": n, "depth": d}, "opts": {"cost": 2 ** n * d}})
    for n, d in ((0, 130), (1, 65), (1, 64), (2, 33)):      # 'exactly depth values' for depths far beyond what a structure asks for
        js.append({"h": "c18.depth", "cfg": {"len": n, "depth": d, "big": True}, "opts": {"cost": 2 ** n * d, "no_witness": False}})
    for d in (1, 2, 3):
        for d0 in (1, 2, 3):
            for tf in (False, True):
                js.append({"h": "c18.pure", "cfg": {"depth": d, "first_depth": d0, "text_first": tf}})
    for d in (1, 2, 3):
        js.append({"h": "c18.bytes_decorator", "cfg": {"depth": d}})
        js.append({"h": "c18.bytes_decorator", "cfg": {"depth": d, "size": 8}})
        js.append({"h": "c18.int_decorator", "cfg": {"depth": d}})
        for algo in ("md5", "sha256"):
            js.append({"h": "c18.shipped_digest", "cfg": {"algo": algo, "depth": d}})
    return js
