"""C08 - counting filters count exactly and removal undoes addition.
Counting Bloom: shape (I) under the multiset invariant (coinciding positions included) + (H) companion.
Counting cuckoo: the C03 harnesses with counts (see c03.py: labels cc-*)."""
from .. import env

PROPERTY = "C08"
CROSS_CHECK = True      # thorough: dumped assertion queries are re-decided by z3 4.8.12 and cvc5 1.0
LEVEL = "model_checking"
STUBS = ["array -> SymArray('I')", "hash_function -> dictionary", "random -> SymRandom (counting cuckoo)"]
ASSUMPTIONS = [
    "counting Bloom pre-state cells are DEFINED by the invariant cell(c) = sum over keys q and hash indices i with pos(q,i) = c of true(q) (a key whose positions coincide counts twice, as the implementation increments per occurrence); asserted on the post-state, so inductive",
    "true counts and amounts <= 2^20 (far below the 2^32-1 saturation limit; saturation is C16)",
    "remove(key, n) only with n <= true count (the property's precondition); 'absent' = the filter reports 0 for the key",
    "counting cuckoo: see the assumptions of C03 (symbolic fingerprints, second index an uninterpreted function, every random choice symbolic)",
]
BOUNDS = {
    "quick": "counting Bloom geometries (est,fpr)->cells/hashes: (1,.5)->2/1, (1,.3)->3/2, (2,.3)->6/2 with K = 2,3 keys (hash values in [0, 2^64); for the 2- and 3-cell geometries also in [-2^64, 2^65]); histories add/add/remove from fresh; counting cuckoo: capacity 2-3, bucket 1-2, max_swaps 1-2",
    "thorough": "adds (3,.2)->11/3 with K = 2; counting cuckoo up to capacity 3 x bucket 2, max_swaps 3",
    "outside": "more cells/hashes/keys than listed; amounts above 2^20 (C16 covers the limits)",
}
EXPECT_LABELS = {"quick": ["cells-follow-invariant", "total", "est>=true", "restore-exact", "absent-says-so", "absent-noop",
                           "history-restores-export", "cc-count-exact"]}


def _cell(ctx, pos, TT, col):
    return ctx.sum([ctx.ite(ctx.eq(p, col), TT[q], 0) for q in range(len(TT)) for p in pos[q]])


def step(ctx, cfg):
    env.setup(ctx, "bloom", "countingbloom")
    from probables import CountingBloomFilter
    K, op = cfg["K"], cfg["op"]
    c = CountingBloomFilter(est_elements=cfg["est"], false_positive_rate=cfg["fpr"])
    m, k = c.number_bits, c.number_hashes
    lo, hi = (-(2 ** 64), 2 ** 65) if cfg.get("wide") else (0, 2 ** 64 - 1)      # wide: what a hand-written strategy may return
    H = [[ctx.hashval(f"h{q}_{i}", m, lo, hi) for i in range(k)] for q in range(K)]
    Tc = [ctx.int(f"true{q}", 0, 2 ** 20) for q in range(K)]
    pos = [[H[q][i] % m for i in range(k)] for q in range(K)]
    if ctx.sym:
        for col in range(m):
            c._bloom[col] = _cell(ctx, pos, Tc, col)
        c.elements_added = ctx.sum(Tc)
    else:       # replay: the pre-state is re-created through the public API (one add per key with its true count)
        for q in range(K):
            if Tc[q] > 0:
                c.add_alt(H[q], Tc[q])
    n = ctx.int("n", 1, 2 ** 20)
    pre, pre_total = env.cells(c._bloom), c.elements_added
    if op == "add":
        r = c.add_alt(H[0], n)
        T2 = [Tc[0] + n] + Tc[1:]
        ctx.check(ctx.ge(r, T2[0]), "add-returns>=true")
    elif op == "remove":
        ctx.assume(ctx.le(n, Tc[0]))
        r = c.remove_alt(H[0], n)
        T2 = [Tc[0] - n] + Tc[1:]
        ctx.check(ctx.ge(r, T2[0]), "remove-returns>=true")
    elif op == "add-remove":
        c.add_alt(H[0], n)
        c.remove_alt(H[0], n)
        T2 = Tc
    else:   # remove-absent: key 0 is reported absent
        ctx.assume(c.check_alt(H[0]) == 0)
        r = c.remove_alt(H[0], n)
        T2 = Tc
        ctx.check(r == 0, "absent-says-so")
        ctx.check(ctx.and_(ctx.all_eq(pre, env.cells(c._bloom)), ctx.eq(pre_total, c.elements_added)), "absent-noop")
    ctx.check(ctx.and_([ctx.eq(c._bloom[col], _cell(ctx, pos, T2, col)) for col in range(m)]), "cells-follow-invariant")
    ctx.check(ctx.eq(c.elements_added, ctx.sum(T2)), "total")
    for q in range(K):
        ctx.check(ctx.ge(c.check_alt(H[q]), T2[q]), "est>=true")
    if op == "add-remove":
        ctx.check(ctx.all_eq(pre, env.cells(c._bloom)), "restore-exact")
        ctx.check(ctx.eq(pre_total, c.elements_added), "restore-total")


def history(ctx, cfg):
    """(H): from fresh, add a; add b; remove a  ==  add b (exported bytes equal), through the key wrappers"""
    env.setup(ctx, "bloom", "countingbloom")
    from probables import CountingBloomFilter
    table = {}
    hf = lambda key, depth=1: table[key][:depth]  # noqa: E731
    c = CountingBloomFilter(est_elements=cfg["est"], false_positive_rate=cfg["fpr"], hash_function=hf)
    d = CountingBloomFilter(est_elements=cfg["est"], false_positive_rate=cfg["fpr"], hash_function=hf)
    m, k = c.number_bits, c.number_hashes
    ctx.check(all(x == 0 for x in env.cells(c._bloom)) and len(env.cells(c._bloom)) == m and c.elements_added == 0, "fresh-all-zero")
    table["a"] = [ctx.hashval(f"a{i}", m) for i in range(k)]
    table[b"b"] = [ctx.hashval(f"b{i}", m) for i in range(k)]
    na, nb = ctx.int("na", 1, 2 ** 20), ctx.int("nb", 1, 2 ** 20)
    order = cfg["order"]
    if order == "aba":
        c.add("a", na)
        c.add(b"b", nb)
    else:
        c.add(b"b", nb)
        c.add("a", na)
    ctx.check(ctx.and_(ctx.ge(c.check("a"), na), ctx.ge(c.check(b"b"), nb)), "history-est>=true")
    c.remove("a", na)
    d.add(b"b", nb)
    ctx.check(env.blob_eq(ctx, env.export_bytes(ctx, c), env.export_bytes(ctx, d)), "history-restores-export")
    ctx.check(ctx.ge(c.check(b"b"), nb), "history-est>=true")


def _cc(name):
    def f(ctx, cfg):
        from . import c03
        return c03.HARNESS[name](ctx, cfg)
    return f


HARNESS = {"c08.step": step, "c08.history": history}
for _n in ("add", "remove", "expand", "history", "lookup"):
    HARNESS["c03.cc_" + _n] = _cc("c03.cc_" + _n)


def jobs(tier):
    js = []
    geo = [(1, .5, 2), (1, .5, 3), (1, .3, 2), (1, .3, 3), (2, .3, 2), (2, .3, 3)]
    if tier == "thorough":
        geo += [(3, .2, 2)]
    for est, fpr, K in geo:
        for op in ("add", "remove", "add-remove", "remove-absent"):
            js.append({"h": "c08.step", "cfg": {"est": est, "fpr": fpr, "K": K, "op": op}, "opts": {"cost": est * est * K * 10, "max_seconds": 1500}})
    for est, fpr, K in [(1, .5, 2), (1, .3, 2)]:
        for op in ("add", "remove", "add-remove", "remove-absent"):
            js.append({"h": "c08.step", "cfg": {"est": est, "fpr": fpr, "K": K, "op": op, "wide": True}, "opts": {"cost": est * est * K * 10, "max_seconds": 1500}})
    for est, fpr in [(1, .5), (1, .3), (2, .3)]:
        for order in ("aba", "baa"):
            js.append({"h": "c08.history", "cfg": {"est": est, "fpr": fpr, "order": order}})
    try:
        from . import c03
        js += c03.cc_jobs(tier)
    except ImportError:
        pass
    return js
