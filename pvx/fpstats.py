"""C14 statistics clause: the real estimate_elements / current_false_positive_rate run over binary64 proxies with ln/exp/pow
uninterpreted, against the documented formulas written independently over the same uninterpreted functions."""
import math

from . import env

GEO = {(63, 4): (10, 0.05), (1438, 10): (100, 0.001)}


def _documented(which, m, k, X, n):
    if which == "estimate":
        return int(-(m / k) * math.log(1 - X / m))
    return math.pow(1 - math.exp(-k * n / m), k)


def _real(bf, which, X, n):
    """the real method with the real math module at concrete X / n"""
    from probables import BloomFilter
    old = BloomFilter._cnt_number_bits_set
    BloomFilter._cnt_number_bits_set = lambda self: X
    try:
        bf.elements_added = n
        return bf.estimate_elements() if which == "estimate" else bf.current_false_positive_rate()
    finally:
        BloomFilter._cnt_number_bits_set = old


def _differs(which, got, want):
    if which == "estimate":
        return abs(got - want) > 1
    return abs(got - want) > 1e-9 * max(abs(want), 1e-300)


def run_stats(ctx, cfg):
    from probables import BloomFilter
    m, k, which = cfg["m"], cfg["k"], cfg["which"]
    est, fpr = GEO[(m, k)]
    bf = BloomFilter(est, fpr)
    assert (bf.number_bits, bf.number_hashes) == (m, k)
    label = "estimate-is-documented-formula" if which == "estimate" else "rate-is-documented-formula"
    if not ctx.sym:
        X, n = ctx.int("X", 0, m - 1), ctx.int("n", 0, 2 ** 40)
        ctx.check(not _differs(which, _real(bf, which, X, n), _documented(which, m, k, X, n)), label)
        return
    import z3
    from . import fp
    bm = env.mod("bloom")
    Xv, nv = z3.BitVec("X", 64), z3.BitVec("n", 64)
    ctx.inputs["X"], ctx.inputs["n"] = Xv, nv
    ctx.solver.add(Xv >= 0, Xv < m, nv >= 0, nv <= 2 ** 40)

    def install():
        ctx.patch(bm, "float", fp.FloatShim)
        ctx.patch(bm, "int", fp.IntShim)
        ctx.patch(bm, "math", fp.MathUF())
        ctx.patch(BloomFilter, "_cnt_number_bits_set", lambda self: fp.SI(Xv))
    install()
    bf.elements_added = fp.SI(nv)
    D, RNE = fp.D, fp.RNE
    toF = lambda b: z3.fpSignedToFP(RNE, b, D)  # noqa: E731
    c = lambda v: z3.FPVal(float(v), D)  # noqa: E731
    if which == "estimate":
        got = bf.estimate_elements()
        ctx.reach("estimate-returned")
        # documented: int( -(m/k) * ln(1 - X/m) ), truncated toward zero
        ref = z3.fpToSBV(z3.RTZ(), z3.fpMul(RNE, z3.fpMul(RNE, c(-1), z3.fpDiv(RNE, c(m), c(k))),
                                          fp.LOG(z3.fpSub(RNE, c(1), z3.fpDiv(RNE, toF(Xv), c(m))))), z3.BitVecSort(64))
        cond = got.t == ref
    else:
        got = bf.current_false_positive_rate()
        # documented: (1 - e^(-k*n/m))^k
        ref = fp.POW(z3.fpSub(RNE, c(1), fp.EXP(z3.fpDiv(RNE, toF(z3.BitVecVal(k, 64) * z3.BitVecVal(-1, 64) * nv), c(m)))), c(k))
        cond = z3.Or(got.t == ref, z3.And(z3.fpIsNaN(got.t), z3.fpIsNaN(ref)))
    ctx.reach(label)
    for attempt in range(8):
        r = ctx._check(z3.Not(cond))
        if r == "unsat":
            ctx.proved[label] = ctx.proved.get(label, 0) + 1
            return
        if r == "unknown":
            ctx.unknown.append(("check", label))
            return
        mdl = ctx.solver.model()
        xv, nn = mdl.eval(Xv, model_completion=True).as_long(), mdl.eval(nv, model_completion=True).as_long()
        ctx.unpatch_all()
        try:
            bad = _differs(which, _real(BloomFilter(est, fpr), which, xv, nn), _documented(which, m, k, xv, nn))
        except (ValueError, OverflowError, ZeroDivisionError):
            bad = True
        install()
        if bad:
            ctx._violation(label, mdl)
            return
        # the model's interpretation of ln/exp/pow is arbitrary: this input does not separate the formulas with the real functions
        ctx.solver.add(z3.Or(Xv != xv, nv != nn) if which == "rate" else Xv != xv)
    ctx.unknown.append(("check", label + ": 8 models of the uninterpreted functions did not replay with the real math functions"))


def uf_check(ctx, cond, label, variables, is_bad, reinstall, tries=8, regions=()):
    """Decide `cond` where ln/exp/log2 are uninterpreted.  unsat = holds for EVERY interpretation (in particular the real
    functions).  A model only shows that SOME interpretation separates the two sides, so it is replayed with the real math
    functions (`is_bad(values)` runs the real code unshimmed); a model that does not replay is blocked and the search goes on,
    at most `tries` times, after which the obligation is inconclusive - never a VIOLATION on the strength of an uninterpreted value."""
    import struct
    import z3
    ctx.reach(label)
    r = ctx._check(z3.Not(cond))
    if r == "unsat":
        ctx.proved[label] = ctx.proved.get(label, 0) + 1
        return True
    # the two sides differ for SOME interpretation: look for an input where they differ with the real functions.  `regions`
    # (optional extra constraints, tried in turn) spread the solver's models over the input range.
    attempts = [None] * tries + list(regions)
    for region in attempts:
        r = ctx._check(z3.Not(cond), region) if region is not None else ctx._check(z3.Not(cond))
        if r == "unsat":
            if region is not None:
                continue
            ctx.proved[label] = ctx.proved.get(label, 0) + 1
            return True
        if r == "unknown":
            ctx.unknown.append(("check", label))
            return False
        mdl = ctx.solver.model()
        vals = {}
        for name, v in variables.items():
            if z3.is_fp(v):
                bits = mdl.eval(z3.fpToIEEEBV(v), model_completion=True).as_long()
                vals[name] = struct.unpack("<d", struct.pack("<Q", bits))[0]
            else:
                vals[name] = mdl.eval(v, model_completion=True).as_long()
        ctx.unpatch_all()
        try:
            bad = is_bad(vals)
        except Exception:  # noqa: BLE001  (a crash of the real code at an accepted input counts)
            bad = True
        reinstall()
        if bad:
            ctx._violation(label, mdl)
            return False
        ctx.solver.add(z3.Or(*[(z3.Not(z3.fpEQ(v, mdl.eval(v, model_completion=True))) if z3.is_fp(v) else v != mdl.eval(v, model_completion=True))
                               for v in variables.values()]))
    ctx.unknown.append(("check", label + f": {tries} models of the uninterpreted functions did not replay with the real math functions"))
    return False
