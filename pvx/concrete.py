"""Concrete twin of the engine facade: the same harness functions run on plain Python ints against the
real, unshimmed classes of /repo (real array, struct, bytes).  Imports no solver, so it also runs under
the repository's own interpreter (/venv/bin/python)."""


class PathEnd(BaseException):
    pass


class ConcreteCtx:
    sym = False

    def __init__(self, inputs, uf=None, cfg=None):
        self.inputs = dict(inputs)
        self.uf_tab = {f: {int(a): int(v) for a, v in apps} for f, apps in (uf or {}).items()}
        self.failed, self.passed, self.reached = [], {}, {}
        self.missing = []
        self.installed = []
        self.obs = {}
        self.cfg = cfg or {}
        self.exception = None
        self.assume_failed = False

    # ---- inputs
    def _get(self, name, default):
        if name in self.inputs:
            return self.inputs[name]
        self.missing.append(name)
        return default

    def int(self, name, lo=None, hi=None):
        return int(self._get(name, lo if lo is not None else 0))

    def hashval(self, name, m, lo=0, hi=2 ** 64 - 1):
        return int(self._get(name, lo))

    @staticmethod
    def compose(q, m, r):
        return q * m + r

    def bits(self, name, w):
        return int(self._get(name, 0))

    def fp(self, name):
        import struct
        return struct.unpack("<d", struct.pack("<Q", int(self._get(name, 0))))[0]

    def boolean(self, name):
        return bool(self._get(name, False))

    def uf(self, fname, arg, lo=None, hi=None, mod=None):
        tab = self.uf_tab.setdefault(fname, {})
        arg = int(arg)
        if arg not in tab:
            tab[arg] = lo if lo is not None else 0
        return tab[arg]

    # ---- logic
    @staticmethod
    def eq(a, b): return a == b
    @staticmethod
    def ne(a, b): return a != b
    @staticmethod
    def lt(a, b): return a < b
    @staticmethod
    def le(a, b): return a <= b
    @staticmethod
    def gt(a, b): return a > b
    @staticmethod
    def ge(a, b): return a >= b
    @staticmethod
    def and_(*cs):
        cs = cs[0] if len(cs) == 1 and isinstance(cs[0], (list, tuple)) else cs
        return all(bool(c) for c in cs)
    @staticmethod
    def or_(*cs):
        cs = cs[0] if len(cs) == 1 and isinstance(cs[0], (list, tuple)) else cs
        return any(bool(c) for c in cs)
    @staticmethod
    def not_(c): return not c
    @staticmethod
    def implies(a, b): return (not a) or bool(b)
    @staticmethod
    def iff(a, b): return bool(a) == bool(b)
    @staticmethod
    def ite(c, a, b): return a if c else b
    @staticmethod
    def sum(xs): return sum(xs)
    @staticmethod
    def bitlist(x, w): return [bool((int(x) >> i) & 1) for i in range(w)]
    @staticmethod
    def popcount(x): return bin(int(x)).count("1")

    def ratio_is(self, r, num, den):
        return den != 0 and r == num / den

    def all_eq(self, xs, ys):
        xs, ys = list(xs), list(ys)
        return len(xs) == len(ys) and all(a == b for a, b in zip(xs, ys))

    # ---- control
    def assume(self, c):
        if not c:
            self.assume_failed = True
            raise PathEnd()

    def fork(self, c): return bool(c)
    def conc(self, x): return int(x)
    def reach(self, label): self.reached[label] = self.reached.get(label, 0) + 1
    def observe(self, name, value): self.obs[name] = value

    def check(self, cond, label):
        self.reach(label)
        if cond:
            self.passed[label] = self.passed.get(label, 0) + 1
            return True
        self.failed.append(label)
        return False

    def patch(self, obj, name, value):
        self.installed.append((obj, name, vars(obj).get(name, _MISSING)))
        setattr(obj, name, value)

    def on_exit(self, fn):
        """cleanup to run when the path / replay ends"""
        if not hasattr(self, "_cleanups") or self._cleanups is None:
            self._cleanups = []
        self._cleanups.append(fn)

    def unpatch_all(self):
        for fn in reversed(getattr(self, "_cleanups", None) or []):
            try:
                fn()
            except Exception:  # noqa: BLE001
                pass
        self._cleanups = []
        for obj, name, old in reversed(self.installed):
            if old is _MISSING:
                try:
                    delattr(obj, name)
                except AttributeError:
                    pass
            else:
                setattr(obj, name, old)
        self.installed = []


class CBV:
    """concrete w-bit modular value (reference side of kernel obligations)"""
    __slots__ = ("v", "w")

    def __init__(self, v, w):
        self.v, self.w = v & ((1 << w) - 1), w

    def _o(s, o): return o.v if isinstance(o, CBV) else o
    def __add__(s, o): return CBV(s.v + s._o(o), s.w)
    def __mul__(s, o): return CBV(s.v * s._o(o), s.w)
    def __xor__(s, o): return CBV(s.v ^ s._o(o), s.w)
    def __and__(s, o): return CBV(s.v & s._o(o), s.w)
    def __sub__(s, o): return CBV(s.v - s._o(o), s.w)
    def zext(s, w): return CBV(s.v, max(w, s.w))
    def trunc(s, w): return CBV(s.v, w)
    def eq(s, o): return s.v == (s._o(o) & ((1 << s.w) - 1))
    def ult(s, o): return s.v < s._o(o)


def _bv_methods():
    def bv(self, name, w): return CBV(int(self._get(name, 0)), w)
    def bvconst(self, v, w): return CBV(v, w)
    def wide(self, x): return x.v if isinstance(x, CBV) else int(x)
    def narrow(self, x, w): return CBV(int(x), w)
    def fits(self, x, w): return 0 <= int(x) < (1 << w)
    def same_int(self, x, y): return int(x) == int(y)
    def no_overflow(self): return True
    for f in (bv, bvconst, wide, narrow, fits, same_int, no_overflow):
        setattr(ConcreteCtx, f.__name__, f)


_bv_methods()
_MISSING = object()


def raised_by_harness(e):
    """True for an AttributeError whose raising frame is a harness module (pvx/harness/*.py)"""
    if not isinstance(e, AttributeError):
        return False
    tb = e.__traceback__
    while tb is not None and tb.tb_next is not None:
        tb = tb.tb_next
    return tb is not None and "/pvx/harness/" in tb.tb_frame.f_code.co_filename.replace("\\", "/")


def run_concrete(fn, inputs, uf=None, cfg=None):
    """run harness `fn` on concrete inputs against the real classes; returns a result dict"""
    ctx = ConcreteCtx(inputs, uf, cfg)
    try:
        fn(ctx)
    except PathEnd:
        pass
    except Exception as e:  # same labelling as the engine
        ctx.exception = repr(e)[:300]
        if raised_by_harness(e):
            # an AttributeError raised by a harness line itself (not inside the library): the tree no longer has a private
            # member the harness injects state into (renamed slot).  A harness / tree mismatch, never a finding.
            ctx.missing.append("harness-attribute:" + repr(e)[:80])
        else:
            ctx.failed.append(f"no-unexpected-exception:{type(e).__name__}")
    finally:
        ctx.unpatch_all()
    return {"failed": ctx.failed, "passed": ctx.passed, "missing": ctx.missing, "exception": ctx.exception,
            "assume_failed": ctx.assume_failed, "obs": {k: _plain(v) for k, v in ctx.obs.items()}}


def _plain(v):
    if isinstance(v, (list, tuple)):
        return [_plain(x) for x in v]
    if isinstance(v, (bool, int, str)) or v is None:
        return v
    if isinstance(v, float):
        return repr(v)
    if isinstance(v, (bytes, bytearray)):
        return bytes(v).hex()
    return repr(v)
